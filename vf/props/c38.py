"""C38 - all git SHA-map cache backends answer identically.

A native history is built, the cache updates BazaarObjectStore._update_sha_map
performs for it are recorded once (per revision: blobs, trees, commit) and
replayed, in a generated topological order and batching, through the write-
group protocol into DictGitShaMap, SqliteGitShaMap (file backed) and
IndexGitShaMap (transport backed), with generated close / re-open points,
aborted and crashed groups; after every group the answers of every backend are
compared with a plain-dict model of what was durably inserted."""

import os

from hypothesis import strategies as st

from vf.api import Kind, check, ok, rejected, trivial, violation
from vf.lib import history as H

PROPERTY = "C38"
LEVEL = "exploration"
TECHNIQUE = ("differential comparison of cache backends against a plain-dict "
             "reference on update sequences recorded from real histories and "
             "replayed with generated batching / re-open / abort / crash points")
RULE = ("generated: native 2a history (3-9 revisions, merges, symlinks, exec "
        "bits, renames, pointless commits; files often share content) built "
        "with a real working tree; its _update_sha_map cache updates recorded "
        "and replayed in a generated topological order split into 1-4 write "
        "groups, each ending in commit / abort (index backend) / crash "
        "(persistent backends closed without commit), followed by nothing, a "
        "soft re-open (new map object) or a hard re-open (sqlite connection "
        "closed, index re-read from its transport), optional index repack; "
        "observed after every group and inside a group after every finished "
        "revision, for every key ever inserted plus absent ones. Non-trivial: "
        ">= 3 revisions, some git SHA stored under >= 2 keys (shared blob or "
        "tree) and >= 1 re-open; distinct by case hash.")
ASSUMPTIONS = [
    "one database path per case; ending the sqlite connection from the harness "
    "(close + drop from the per-thread connection table) stands for the end "
    "of the process that held it",
    "a cache may answer lookup_tree_id with 'not known' (KeyError / "
    "NotImplementedError): BazaarObjectStore documents both as a miss and "
    "recomputes; a wrong id is never acceptable",
    "lookup_git_sha returns alternatives: every backend must return a non-empty "
    "list of true (type, key) entries of that SHA; how many of several "
    "equivalent keys a backend keeps is its storage format's business",
    "TdbGitShaMap is compared only when the tdb module imports (it does not in "
    "this image: labelled tdb-skipped, nothing claimed)",
]
NONTRIVIAL_FLOOR = {"quick": 60, "thorough": 1500}


# ----------------------------------------------------------------- recording

def record_updates(repo):
    """[(Revision, [(obj, key_data, path)])] in the store's own order."""
    from breezy.git import cache as C
    from breezy.git import mapping as gmap
    from breezy.git.object_store import BazaarObjectStore
    log = []

    class RecUpdater(C.DictCacheUpdater):
        def __init__(self, cache, rev):
            C.DictCacheUpdater.__init__(self, cache, rev)
            self._log = []
            log.append((rev, self._log))

        def add_object(self, obj, key, path):
            self._log.append((obj, key, path))
            return C.DictCacheUpdater.add_object(self, obj, key, path)

    cache = C.BzrGitCache(C.DictGitShaMap(), RecUpdater)
    with repo.lock_read():
        store = BazaarObjectStore(repo, gmap.default_mapping)
        store._cache = cache
        store.start_write_group = cache.idmap.start_write_group
        store.abort_write_group = cache.idmap.abort_write_group
        store.commit_write_group = cache.idmap.commit_write_group
        store.lock_read()
        try:
            store._update_sha_map()
        finally:
            store.unlock()
    return log


def _parts(obj):
    if isinstance(obj, tuple):
        return obj[0], obj[1]
    return obj.type_name.decode("ascii"), obj.id


# --------------------------------------------------------------------- model

class Model:
    """What a cache must know after the revisions durably inserted."""

    def __init__(self):
        self.by_sha = {}      # sha -> set of (type, typedata)
        self.blob = {}        # (fileid, revid) -> sha
        self.tree = {}        # (fileid, revid) -> sha
        self.commit = {}      # revid -> sha

    def copy(self):
        m = Model()
        m.by_sha = {k: set(v) for k, v in self.by_sha.items()}
        m.blob = dict(self.blob)
        m.tree = dict(self.tree)
        m.commit = dict(self.commit)
        return m

    def add_revision(self, rev, entries):
        for obj, key, path in entries:
            t, sha = _parts(obj)
            if t == "commit":
                verifiers = tuple(sorted(key.items()))
                self.by_sha.setdefault(sha, set()).add(
                    ("commit", (rev.revision_id, obj.tree, verifiers)))
                self.commit[rev.revision_id] = sha
            elif key is not None:
                self.by_sha.setdefault(sha, set()).add((t, tuple(key)))
                (self.blob if t == "blob" else self.tree)[tuple(key)] = sha


def _norm_entries(it):
    out = []
    for t, data in it:
        if t == "commit":
            revid, tree_sha, verifiers = data
            out.append(("commit", (revid, tree_sha,
                                   tuple(sorted(verifiers.items())))))
        else:
            out.append((t, tuple(data)))
    return out


# ------------------------------------------------------------------ backends

class Backend:
    name = None
    transactional = False

    def feed(self, rev, entries):
        u = self.cache.get_updater(rev)
        for obj, key, path in entries:
            u.add_object(obj, key, path)
        u.finish()

    def start(self):
        self.cache.idmap.start_write_group()

    def commit(self):
        self.cache.idmap.commit_write_group()


class DictBackend(Backend):
    name = "dict"

    def __init__(self, root):
        from breezy.git import cache as C
        self.cache = C.DictBzrGitCache()

    def reopen(self, hard):
        pass


class SqliteBackend(Backend):
    name = "sqlite"

    def __init__(self, root):
        os.makedirs(os.path.join(root, "sql"))
        self.path = os.path.join(root, "sql", "idmap.db")
        self._open()

    def _open(self):
        from breezy.git import cache as C
        self.cache = C.SqliteBzrGitCache(self.path)

    def reopen(self, hard):
        if hard:
            self.end()
        self._open()

    def end(self):
        """The process holding the connection goes away."""
        from breezy.git import cache as C
        db = C.mapdbs().pop(self.path, None)
        if db is not None:
            db.close()


class IndexBackend(Backend):
    name = "index"

    def __init__(self, root):
        os.makedirs(os.path.join(root, "idx", "index"))
        self.base = os.path.join(root, "idx")
        self._open()

    def _open(self):
        from breezy import transport as _mod_transport
        from breezy.git import cache as C
        self.cache = C.IndexBzrGitCache(_mod_transport.get_transport(self.base))

    def reopen(self, hard):
        self._open()

    def end(self):
        pass

    def abort(self):
        self.cache.idmap.abort_write_group()

    def repack(self):
        self.cache.idmap.repack()


class TdbBackend(Backend):
    name = "tdb"

    def __init__(self, root):
        os.makedirs(os.path.join(root, "tdb"))
        self.path = os.path.join(root, "tdb", "idmap.tdb")
        self._open()

    def _open(self):
        from breezy.git import cache as C
        self.cache = C.TdbBzrGitCache(self.path)

    def reopen(self, hard):
        self._open()

    def end(self):
        pass


def _tdb_available():
    try:
        import tdb  # noqa: F401
    except ImportError:
        return False
    return True


# -------------------------------------------------------------------- oracle

ABSENT_SHA = b"f" * 40
ABSENT_KEY = (b"no-such-file-id", b"no-such-revision")
ABSENT_REV = b"no-such-revision"


def observe(b, model, universe, detail, full):
    """Compare backend b with the model on every key of the universe."""
    m = b.cache.idmap
    n = b.name
    for sha in universe["shas"]:
        want = model.by_sha.get(sha)
        try:
            got = _norm_entries(list(m.lookup_git_sha(sha)))
        except KeyError:
            got = None
        if want is None:
            check(got is None, "C38/%s-lookup_git_sha-knows-absent-sha" % n,
                  detail + [sha, repr(got)])
            continue
        check(got is not None, "C38/%s-lookup_git_sha-misses-inserted-sha" % n,
              detail + [sha, repr(sorted(want))])
        check(len(got) >= 1, "C38/%s-lookup_git_sha-empty-answer" % n,
              detail + [sha])
        for e in got:
            check(e in want, "C38/%s-lookup_git_sha-wrong-entry" % n,
                  detail + [sha, repr(e), repr(sorted(want))])
        if len(want) == 1:
            check(set(got) == want,
                  "C38/%s-lookup_git_sha-differs" % n,
                  detail + [sha, repr(got), repr(sorted(want))])
    # blob ids are asked for file keys, tree ids for directory keys (the
    # dictionary backend keeps both in one table, as its callers never mix
    # them)
    for key in universe["blob_keys"]:
        want = model.blob.get(key)
        try:
            got = m.lookup_blob_id(*key)
        except KeyError:
            got = None
        check(got == want, "C38/%s-lookup_blob_id-differs" % n,
              detail + [list(key), repr(got), repr(want)])
    for key in universe["tree_keys"]:
        want = model.tree.get(key)
        try:
            got = m.lookup_tree_id(*key)
        except (KeyError, NotImplementedError):
            got = None
        if want is None:
            check(got is None, "C38/%s-lookup_tree_id-knows-absent-key" % n,
                  detail + [list(key), repr(got)])
        else:
            # a miss is a documented answer; a different id is not
            check(got in (None, want), "C38/%s-lookup_tree_id-wrong-id" % n,
                  detail + [list(key), repr(got), repr(want)])
            if n == "dict":
                check(got == want, "C38/dict-lookup_tree_id-misses",
                      detail + [list(key)])
            if n == "sqlite" and got is None:
                others = [k for k, s in model.tree.items()
                          if s == want and k != key]
                check(others, "C38/sqlite-lookup_tree_id-misses-unshared-tree",
                      detail + [list(key), repr(want)])
    for revid in universe["revids"]:
        want = model.commit.get(revid)
        try:
            got = m.lookup_commit(revid)
        except KeyError:
            got = None
        check(got == want, "C38/%s-lookup_commit-differs" % n,
              detail + [revid, repr(got), repr(want)])
    if not full:
        return
    got = sorted(set(m.revids()))
    check(got == sorted(model.commit), "C38/%s-revids-differ" % n,
          detail + [repr(got), repr(sorted(model.commit))])
    got = sorted(set(m.sha1s()))
    check(all(isinstance(s, bytes) for s in got),
          "C38/%s-sha1s-not-bytes" % n, detail + [repr(got[:3])])
    check(got == sorted(model.by_sha), "C38/%s-sha1s-differ" % n,
          detail + [repr(got), repr(sorted(model.by_sha))])
    ask = set(universe["revids"])
    got = m.missing_revisions(set(ask))
    want = ask - set(model.commit)
    check(set(got) == want, "C38/%s-missing_revisions-differ" % n,
          detail + [repr(sorted(got)), repr(sorted(want))])
    got = m.missing_revisions(sorted(ask))
    check(set(got) == want, "C38/%s-missing_revisions-of-a-list-differ" % n,
          detail + [repr(sorted(got)), repr(sorted(want))])


def topo_order(spec, picks):
    revs = spec["revs"]
    done = []
    doneset = set()
    left = [r["id"] for r in revs]
    parents = {r["id"]: r["parents"] for r in revs}
    i = 0
    while left:
        avail = [r for r in left if all(p in doneset for p in parents[r])]
        r = avail[picks[i % len(picks)] % len(avail)] if picks else avail[0]
        i += 1
        left.remove(r)
        done.append(r)
        doneset.add(r)
    return done


def run(case, env):
    root = env.newdir("c38")
    spec = case["spec"]
    wt, models, idmap = H.build_wt(spec, os.path.join(root, "wt"), "2a")
    repo = wt.branch.repository
    log = record_updates(repo)
    if case.get("verifiers"):
        # what a roundtripping mapping records with every commit (the default
        # mapping is lossy and records none)
        import hashlib
        log = [(rev, [(obj, ({"testament3-sha1": hashlib.sha1(
            rev.revision_id).hexdigest().encode("ascii")}
            if _parts(obj)[0] == "commit" else key), path)
            for obj, key, path in entries]) for rev, entries in log]
    by_rev = {rev.revision_id: (rev, entries) for rev, entries in log}
    check(len(by_rev) == len(spec["revs"]),
          "C38/harness-update-log-incomplete", [sorted(by_rev)])
    # everything that will ever be asked
    full_model = Model()
    for rev, entries in log:
        full_model.add_revision(rev, entries)
    universe = {
        "shas": sorted(full_model.by_sha) + [ABSENT_SHA],
        "blob_keys": sorted(full_model.blob) + [ABSENT_KEY],
        "tree_keys": sorted(full_model.tree) + [ABSENT_KEY],
        "revids": sorted(full_model.commit) + [ABSENT_REV],
    }
    backends = [DictBackend(root), SqliteBackend(root), IndexBackend(root)]
    tdb = _tdb_available()
    if tdb:
        backends.append(TdbBackend(root))
    try:
        return _replay(case, spec, idmap, by_rev, universe, backends,
                       full_model, tdb)
    finally:
        for b in backends:
            if hasattr(b, "end"):
                b.end()


def _replay(case, spec, idmap, by_rev, universe, backends, full_model, tdb):
    queue = [idmap[r] for r in topo_order(spec, case["picks"])]
    durable = Model()
    pending_findings = []
    reopens = 0
    gi = 0
    groups = list(case["groups"])
    while queue:
        g = groups[gi] if gi < len(groups) else {
            "n": len(queue), "end": "commit", "after": "none",
            "repack": False}
        gi += 1
        take = queue[:max(1, g["n"])]
        end = g["end"]
        if end == "abort":
            active = [b for b in backends if b.name == "index"]
        elif end == "crash":
            active = [b for b in backends if b.name in ("sqlite", "index",
                                                         "tdb")]
        else:
            active = list(backends)
        pending = durable.copy()
        for b in active:
            b.start()
        for j, revid in enumerate(take):
            rev, entries = by_rev[revid]
            pending.add_revision(rev, entries)
            for b in active:
                b.feed(rev, entries)
            if g.get("probe"):
                # inside the group the conversion of later revisions relies
                # on the point lookups of the finished ones
                for b in active:
                    observe(b, pending, universe,
                            ["group %d after %d revisions" % (gi, j + 1),
                             b.name], full=False)
        detail = ["after group %d (%s, %s)" % (gi, end, g["after"])]
        if end == "commit":
            for b in active:
                b.commit()
            durable = pending
            queue = queue[len(take):]
            if g.get("redo"):
                # the same revisions are added once more in a later write
                # group (a sequence with a repetition): nothing may be lost
                for b in backends:
                    b.start()
                for revid in take:
                    rev, entries = by_rev[revid]
                    for b in backends:
                        b.feed(rev, entries)
                for b in backends:
                    b.commit()
                for b in backends:
                    b.reopen(True)
                reopens += 1
        elif end == "abort":
            for b in active:
                b.abort()
        else:
            for b in active:
                b.reopen(True)
            reopens += 1
        if g["after"] in ("soft", "hard"):
            for b in backends:
                b.reopen(g["after"] == "hard")
            reopens += 1
        if g.get("repack") and end == "commit":
            for b in backends:
                if b.name == "index":
                    try:
                        b.repack()
                    except AttributeError as e:
                        # open finding; deferred so the comparison goes on
                        pending_findings.append(violation(
                            "C38/index-repack-raises-AttributeError",
                            detail + [repr(e)]))
                        b.reopen(True)
        for b in backends:
            observe(b, durable, universe, detail + [b.name], full=True)
    # final: everything is in, all backends once more after a hard re-open
    for b in backends:
        b.reopen(True)
        if b.name != "dict":
            observe(b, durable, universe, ["final re-open", b.name],
                    full=True)
    check(sorted(durable.commit) == sorted(full_model.commit),
          "C38/harness-not-everything-replayed", [])
    shared = any(len(v) >= 2 for v in full_model.by_sha.values())
    nrev = len(full_model.commit)
    if pending_findings:
        return pending_findings[0]
    if nrev < 3 or not shared or reopens < 1:
        return trivial()
    lab = "shared-sha+reopen"
    ends = set(g["end"] for g in groups[:gi])
    if "abort" in ends:
        lab += "+abort"
    if "crash" in ends:
        lab += "+crash"
    if any(len(v) >= 2 and all(t == "blob" for t, d in v)
           for v in full_model.by_sha.values()):
        lab += "+shared-blob"
    if any(len(v) >= 2 and all(t == "tree" for t, d in v)
           for v in full_model.by_sha.values()):
        lab += "+shared-tree"
    if case.get("verifiers"):
        lab += "+verifiers"
    if not tdb:
        lab += "+tdb-skipped"
    return ok(lab)


# --------------------------------------------------------------- generation

@st.composite
def gen_case(draw):
    spec = draw(H.history_spec(n_min=3, n_max=9, merges=True, symlinks=True,
                               execs=True, ghosts=False, tags=False))
    ngroups = draw(st.sampled_from([1, 2, 2, 3, 3, 4]))
    groups = []
    for i in range(ngroups):
        groups.append({
            "n": draw(st.integers(1, 4)),
            "end": draw(st.sampled_from(["commit"] * 5 + ["abort", "crash"])),
            "after": draw(st.sampled_from(["none", "soft", "hard", "hard"])),
            "repack": draw(st.sampled_from([False] * 11 + [True])),
            "probe": draw(st.sampled_from([True, False])),
            "redo": draw(st.sampled_from([False] * 5 + [True])),
        })
    return {"verifiers": draw(st.booleans()), "spec": spec, "groups": groups,
            "picks": draw(st.lists(st.integers(0, 5), min_size=1,
                                   max_size=9))}


def kinds(tier):
    return [
        Kind("replayed-history-updates", run, strategy=gen_case(),
             examples={"quick": 600, "thorough": 30000}),
    ]


REGISTERED = True
LEVEL_TEXT = ("Every backend is driven through its write-group protocol with "
              "the updates of generated real histories and compared, after "
              "every group, re-open, abort and crash, with a dictionary model "
              "on every key ever inserted and on absent keys. Sampled "
              "histories and schedules: exploration.")
LEVEL_NOTE = ("The update content comes from BazaarObjectStore with the "
              "dictionary backend; the tdb backend is not available in this "
              "image and is not claimed; cache misses on lookup_tree_id and the "
              "number of alternative keys returned by lookup_git_sha are "
              "left to the backend (documented as such by their only caller).")
