"""C25 - log lists the requested history completely and consistently."""

from hypothesis import strategies as st

from vf.api import Kind, check, ok, trivial
from vf.lib import bz, graphmodel as gm, history

PROPERTY = "C25"
LEVEL = "exploration"
TECHNIQUE = ("Hypothesis-generated revision DAGs on real branches; reference "
             "graph model for ancestry / left-hand history / ranges, own "
             "reverse-by-depth, differential between log code paths "
             "(delayed graph generation on/off, Logger vs generator, per-file "
             "graph vs delta matching)")
RULE = ("kind dag-log: history_spec DAGs of 2-14 revisions (merges of merges, "
        "ghost parents) x generated tip x every (direction, levels, mainline "
        "range, limit, omit_merges) request drawn for the case, the same range "
        "as a graph difference (exclude_common_ancestry), limits on ranges, a "
        "range between two merged revisions, an empty branch. kind "
        "file-log: DAGs (some longer than one 9-revision batch) whose file "
        "contents are the set of ancestors that "
        "touched the file (so merges really carry the merged side's change), "
        "log of each file with both matching modes, with limits, mainline "
        "ranges and delta types, of several files and of the directory. "
        "Non-trivial: the tip's "
        "ancestry contains a merge and the request has a range, a limit or a "
        "file filter. Distinct by case hash.")
ASSUMPTIONS = [
    "merge depth and dotted revnos come from vcsgraph.merge_sort (trusted "
    "base); they are compared between breezy's code paths, not re-derived",
    "dotted (non-mainline) range endpoints are only checked with a validity "
    "predicate (subset of the end revision's ancestry, no duplicates); a "
    "range between two merged revisions additionally: contains both ends, "
    "nothing below the start's left-hand parent, the same set in both "
    "directions and generation modes, top level at depth 0 (the depths "
    "inside such a range are presentation and are not compared)",
]
LEVEL_TEXT = ("Sampled exploration against an independent graph model plus "
              "differentials between the redundant log code paths: every "
              "generated history is logged with a battery of requests and the "
              "listed revisions, their order relations, revnos and depths are "
              "compared with the model.")
LEVEL_NOTE = ("Histories bounded to 14 revisions; vcsgraph merge_sort trusted; "
              "file logs cover content changes of never-renamed files plus "
              "files added later (renames are not generated in the file-log "
              "kind).")
REGISTERED = True
NONTRIVIAL_FLOOR = {"quick": 30, "thorough": 300}


def loglist(br, **kw):
    from breezy import log as _log
    rq = _log.make_log_request_dict(**kw)
    g = _log._DefaultLogGenerator(br, **rq)
    return [(lr.rev.revision_id.decode(), str(lr.revno), lr.merge_depth)
            for lr in g.iter_log_revisions()]


def logger_list(br, levels, **kw):
    """The same request through the public Logger + a LogFormatter."""
    import io
    from breezy import log as _log

    class Collect(_log.LogFormatter):
        supports_merge_revisions = True
        preferred_levels = 0
        supports_tags = True

        def __init__(self, levels):
            _log.LogFormatter.__init__(self, io.StringIO(), levels=levels)
            self.got = []

        def log_revision(self, lr):
            self.got.append((lr.rev.revision_id.decode(), str(lr.revno),
                             lr.merge_depth))

    lf = Collect(levels)
    rq = _log.make_log_request_dict(levels=levels, **kw)
    _log.Logger(br, rq).show(lf)
    return lf.got


def rbd(seq, depth=0):
    """Own reverse-by-depth: revisions of greater depth stay grouped behind the
    preceding revision of this depth; groups are reversed, recursively."""
    groups = []
    for item in seq:
        if item[2] == depth:
            groups.append([item])
        else:
            check(bool(groups), "C25/log-starts-below-depth", [seq[:3], depth])
            groups[-1].append(item)
    out = []
    for grp in reversed(groups):
        out.append(grp[0])
        if len(grp) > 1:
            out.extend(rbd(grp[1:], depth + 1))
    return out


def info(br, n):
    from breezy import revisionspec
    return revisionspec.RevisionSpec.from_string(str(n)).in_history(br)


def check_graph_log(br, g, tip, case):
    e = bz.enc
    lh = gm.lefthand(g, tip)
    anc = gm.ancestry(g, tip)
    m = {k.decode(): ".".join(map(str, v))
         for k, v in br.get_revision_id_to_revno_map().items()}
    depth = {rid.decode(): d for rid, d, _rn, _e in
             br.iter_merge_sorted_revisions()}
    merges = {r for r in anc if len([p for p in g[r] if p in g]) > 1}
    multi_parent = {r for r in anc if len(g[r]) > 1}     # ghosts count
    rev = loglist(br, levels=0, direction="reverse")
    fwd = loglist(br, levels=0, direction="forward")
    ids = [x[0] for x in rev]
    check(len(ids) == len(set(ids)), "C25/revision-listed-twice", [tip, rev])
    check(set(ids) == anc, "C25/log-not-the-ancestry",
          [tip, sorted(set(ids) ^ anc)])
    for rid, revno, d in rev:
        check(revno == m[rid], "C25/revno-differs-from-branch-map",
              [tip, rid, revno, m[rid]])
        check(d == depth[rid], "C25/depth-differs-from-merge-sort",
              [tip, rid, d, depth[rid]])
        check((d == 0) == (rid in lh), "C25/depth-zero-iff-mainline",
              [tip, rid, d])
    check(fwd == rbd(rev), "C25/forward-not-reverse-by-depth-of-reverse",
          [tip, rev, fwd])
    one = loglist(br, levels=1, direction="reverse")
    check([x[0] for x in one] == lh[::-1], "C25/levels-1-not-lefthand",
          [tip, one, lh])
    check(all(x[2] == 0 for x in one), "C25/levels-1-depth", [tip, one])
    onef = loglist(br, levels=1, direction="forward")
    check([x[0] for x in onef] == lh, "C25/levels-1-forward-not-lefthand",
          [tip, onef, lh])
    two = loglist(br, levels=2, direction="reverse")
    check(two == [x for x in rev if x[2] < 2], "C25/levels-2-not-depth-filter",
          [tip, two])
    # Logger + formatter give what the generator gives
    for lv, direction in ((0, "reverse"), (1, "forward"), (0, "forward")):
        a = logger_list(br, lv, direction=direction)
        b = loglist(br, levels=lv, direction=direction)
        check(a == b, "C25/logger-differs-from-generator", [tip, lv, direction])
    # omit_merges
    om = loglist(br, levels=0, direction="reverse", omit_merges=True)
    check(om == [x for x in rev if x[0] not in multi_parent], "C25/omit-merges",
          [tip, om])
    # limits are prefixes
    for n in case["limits"]:
        for lv, direction, base in ((0, "reverse", rev), (0, "forward", fwd),
                                    (1, "reverse", one)):
            got = loglist(br, levels=lv, direction=direction, limit=n)
            check(got == base[:n], "C25/limit-not-a-prefix",
                  [tip, lv, direction, n, got, base[:n]])
    # mainline ranges
    from breezy import log as _log
    nt = False
    for (a, b) in case["ranges"]:
        i = 1 + a % len(lh)
        j = i + b % (len(lh) - i + 1)
        s, t = info(br, i), info(br, j)
        want = gm.ancestry(g, lh[j - 1]) - (
            gm.ancestry(g, lh[i - 2]) if i >= 2 else set())
        for direction in ("reverse", "forward"):
            rng = loglist(br, levels=0, direction=direction, start_revision=s,
                          end_revision=t)
            got = [x[0] for x in rng]
            check(len(got) == len(set(got)), "C25/range-duplicates",
                  [tip, i, j, direction, rng])
            check(set(got) == want, "C25/range-not-the-denoted-revisions",
                  [tip, i, j, direction, sorted(set(got) ^ want)])
            for rid, revno, d in rng:
                check(revno == m[rid], "C25/range-revno", [tip, rid, revno])
            r1 = loglist(br, levels=1, direction=direction, start_revision=s,
                         end_revision=t)
            sl = lh[i - 1:j]
            check([x[0] for x in r1] == (sl if direction == "forward"
                                         else sl[::-1]),
                  "C25/range-levels-1-not-mainline-slice",
                  [tip, i, j, direction, r1, sl])
        # a limit on a range is a prefix of the range
        for n in case["limits"][:1]:
            for direction in ("reverse", "forward"):
                full = loglist(br, levels=0, direction=direction,
                               start_revision=s, end_revision=t)
                got = loglist(br, levels=0, direction=direction,
                              start_revision=s, end_revision=t, limit=n)
                check(got == full[:n], "C25/limit-on-a-range-not-a-prefix",
                      [tip, i, j, direction, n, got, full[:n]])
        # the range as a graph difference (exclude_common_ancestry): what is in
        # the end revision's ancestry and not in the start revision's
        if i == j:
            from breezy import errors as _errors
            try:
                got = loglist(br, levels=0, start_revision=s, end_revision=t,
                              exclude_common_ancestry=True)
                check(False, "C25/graph-difference-of-one-revision-accepted",
                      [tip, i, got])
            except _errors.CommandError:
                pass
        else:
            wantx = gm.ancestry(g, lh[j - 1]) - gm.ancestry(g, lh[i - 1])
            for direction in ("reverse", "forward"):
                rng = loglist(br, levels=0, direction=direction,
                              start_revision=s, end_revision=t,
                              exclude_common_ancestry=True)
                got = [x[0] for x in rng]
                check(len(got) == len(set(got)) and set(got) == wantx,
                      "C25/graph-difference-range-not-the-denoted-revisions",
                      [tip, i, j, direction, got, sorted(wantx)])
                for rid, revno, d in rng:
                    check(revno == m[rid], "C25/range-revno", [tip, rid, revno])
                r1 = loglist(br, levels=1, direction=direction,
                             start_revision=s, end_revision=t,
                             exclude_common_ancestry=True)
                sl = lh[i:j]
                check([x[0] for x in r1] == (sl if direction == "forward"
                                             else sl[::-1]),
                      "C25/graph-difference-levels-1-not-mainline-slice",
                      [tip, i, j, direction, r1, sl])
        # with only one endpoint
        rng = loglist(br, levels=0, start_revision=s)
        check({x[0] for x in rng} == anc - (
            gm.ancestry(g, lh[i - 2]) if i >= 2 else set()),
            "C25/open-ended-range-start", [tip, i])
        rng = loglist(br, levels=0, end_revision=t)
        check({x[0] for x in rng} == gm.ancestry(g, lh[j - 1]),
              "C25/open-ended-range-end", [tip, j])
        # the same view with and without delayed graph generation
        for direction in ("reverse", "forward"):
            views = []
            for delayed in (False, True):
                views.append([
                    (rid.decode(), str(rn), d) for rid, rn, d in
                    _log._calc_view_revisions(
                        br, s.rev_id, t.rev_id, direction,
                        generate_merge_revisions=True,
                        delayed_graph_generation=delayed)])
            check(views[0] == views[1],
                  "C25/delayed-graph-generation-changes-the-view",
                  [tip, i, j, direction, views])
        if want & merges:
            nt = True
    # a dotted (merged) revision as range end: validity predicate only
    side = sorted(anc - set(lh))
    if side:
        from breezy import revisionspec
        r = side[case["pick"] % len(side)]
        t = revisionspec.RevisionSpec.from_string("revid:" + r).in_history(br)
        rng = loglist(br, levels=0, end_revision=t)
        got = [x[0] for x in rng]
        check(len(got) == len(set(got)), "C25/dotted-end-duplicates", [tip, r])
        check(set(got) <= gm.ancestry(g, r) and r in got,
              "C25/dotted-end-not-within-its-ancestry",
              [tip, r, sorted(set(got) - gm.ancestry(g, r))])
        # "-r ..X" denotes everything up to X: the whole ancestry of X
        check(set(got) == gm.ancestry(g, r),
              "C25/dotted-end-range-omits-revisions",
              [tip, r, sorted(gm.ancestry(g, r) - set(got))])
        check(rng[0][0] == r and rng[0][2] == 0,
              "C25/dotted-end-range-does-not-start-at-depth-0", [tip, r, rng[:2]])
        # both ends merged revisions (a development line): validity predicate
        # on the listed set, the two directions and the two generation modes
        # list the same revisions, depths are rebased so that the top level
        # is 0 (merge depths inside such a range are presentation, they are
        # not compared between the modes)
        lower = sorted(gm.ancestry(g, r) - set(lh))
        s_id = lower[(case["pick"] // 2) % len(lower)]
        sx = revisionspec.RevisionSpec.from_string("revid:" + s_id
                                                   ).in_history(br)
        seen = {}
        for direction in ("reverse", "forward"):
            rng = loglist(br, levels=0, direction=direction,
                          start_revision=sx, end_revision=t)
            got = [x[0] for x in rng]
            seen[direction] = got
            check(len(got) == len(set(got)), "C25/dotted-range-duplicates",
                  [tip, s_id, r, direction, got])
            check(set(got) <= gm.ancestry(g, r) and r in got and s_id in got,
                  "C25/dotted-range-not-within-the-end's-ancestry",
                  [tip, s_id, r, direction, got])
            check(not set(got) & (gm.ancestry(g, g[s_id][0])
                                  if g[s_id] and g[s_id][0] in g else set()),
                  "C25/dotted-range-reaches-below-its-start",
                  [tip, s_id, r, direction, got])
            for rid, revno, d in rng:
                check(revno == m[rid], "C25/range-revno", [tip, rid, revno])
                check(0 <= d <= depth[rid], "C25/dotted-range-depth",
                      [tip, s_id, r, direction, rid, d, depth[rid]])
            check(min(x[2] for x in rng) == 0,
                  "C25/dotted-range-top-level-not-depth-0",
                  [tip, s_id, r, direction, rng])
            modes = []
            for delayed in (False, True):
                modes.append(sorted(rid.decode() for rid, rn, d in
                                    _log._calc_view_revisions(
                                        br, sx.rev_id, t.rev_id, direction,
                                        generate_merge_revisions=True,
                                        delayed_graph_generation=delayed)))
            check(modes[0] == modes[1] == sorted(got),
                  "C25/delayed-graph-generation-changes-the-view",
                  [tip, s_id, r, direction, modes, got])
        check(seen["reverse"][0] == r,
              "C25/dotted-range-does-not-start-at-its-end", [tip, s_id, r])
        check(sorted(seen["reverse"]) == sorted(seen["forward"]),
              "C25/dotted-range-directions-list-different-revisions",
              [tip, s_id, r, seen])
        if s_id == r and len([p for p in g[r] if p in g]) < 2:
            check(seen["reverse"] == [r],
                  "C25/single-revision-range-lists-more", [tip, r, seen])
    if merges and (case["ranges"] or case["limits"]):
        return "merge+range" if nt else "merge+limit"
    return None


def run_dag(case, env):
    from breezy import branch as _branch
    spec = case["spec"]
    d = env.newdir()
    br = bz.init_branch(d + "/b", case["format"])
    history.build_bb(spec, br)
    g = history.graph_of(spec)
    history.set_tip(br, spec, case["tip"])
    br = _branch.Branch.open(d + "/b")
    with br.lock_read():
        la = check_graph_log(br, g, case["tip"], case)
    # once more on a fresh, unlocked object through the public Logger (which
    # takes the read lock itself; the bare generator requires a locked branch)
    br = _branch.Branch.open(d + "/b")
    rev = logger_list(br, 0, direction="reverse")
    check({x[0] for x in rev} == gm.ancestry(g, case["tip"]),
          "C25/unlocked-log-not-the-ancestry", [case["tip"]])
    if case["pick"] % 4 == 0:
        # a branch without revisions has an empty log, in every mode
        eb = bz.init_branch(d + "/empty", case["format"])
        for lv, direction in ((0, "reverse"), (1, "forward")):
            check(logger_list(eb, lv, direction=direction) == [],
                  "C25/log-of-an-empty-branch-not-empty", [lv, direction])
    return ok(la) if la else trivial()


@st.composite
def dag_cases(draw, n_max=12):
    spec = draw(history.history_spec(
        n_min=2, n_max=n_max, merges=True, ghosts=True, bb_safe=True,
        ops_max=1, base_max=1))
    ids = [r["id"] for r in spec["revs"]]
    tip = draw(st.sampled_from(ids[len(ids) // 2:]))
    return {"spec": spec, "format": draw(st.sampled_from(["2a", "2a",
                                                          "pack-0.92"])),
            "tip": tip,
            "ranges": draw(st.lists(st.tuples(st.integers(0, 15),
                                              st.integers(0, 15)).map(list),
                                    max_size=3)),
            "limits": draw(st.lists(st.integers(1, 8), max_size=2,
                                    unique=True)),
            "pick": draw(st.integers(0, 15))}


# ---------------------------------------------------------------- file log

FILES = ["f0", "f1", "d/f2"]


def touch_sets(case):
    """{rev: {file: frozenset(revisions in ancestry(rev) that touched it)}};
    a file exists in rev iff its creator is in ancestry(rev)."""
    g = {r["id"]: tuple(r["parents"]) for r in case["revs"]}
    out = {}
    for r in case["revs"]:
        anc = gm.ancestry(g, r["id"])
        out[r["id"]] = {
            f: frozenset(x["id"] for x in case["revs"]
                         if x["id"] in anc and f in x["touch"])
            for f in FILES}
    return g, out


def content(ts):
    return "".join("%s\n" % t for t in sorted(ts, key=lambda s: int(s[1:])))


def build_file_history(case, br):
    from breezy.branchbuilder import BranchBuilder
    g, ts = touch_sets(case)
    bb = BranchBuilder(branch=br)
    bb.start_series()
    try:
        for r in case["revs"]:
            rid = r["id"]
            acts = []
            if not r["parents"]:
                acts = [("add", ("", b"root-id", "directory", None)),
                        ("add", ("d", b"d-id", "directory", None)),
                        ("flush", None)]
                left = {f: None for f in FILES}
                left_exists = set()
            else:
                left = ts[r["parents"][0]]
                left_exists = {f for f in FILES if left[f]}
            for f in FILES:
                cur = ts[rid][f]
                if not cur:
                    continue
                if f not in left_exists:
                    acts.append(("add", (f, (f.replace("/", "_") + "-id"
                                             ).encode(), "file",
                                         content(cur).encode())))
                elif cur != left[f]:
                    acts.append(("modify", (f, content(cur).encode())))
            bb.build_snapshot([bz.enc(p) for p in r["parents"]], acts,
                              revision_id=bz.enc(rid), timestamp=bz.T0,
                              timezone=0, committer=bz.COMMITTER)
    finally:
        bb.finish_series()
    return g, ts


def run_file(case, env):
    from breezy import branch as _branch
    from breezy.transport import NoSuchFile as _NoSuchFile
    d = env.newdir()
    br = bz.init_branch(d + "/b", case["format"])
    g, ts = build_file_history(case, br)
    tip = case["tip"]
    lh = gm.lefthand(g, tip)
    with br.lock_write():
        br.set_last_revision_info(len(lh), bz.enc(tip))
    br = _branch.Branch.open(d + "/b")
    label = None
    mode = case.get("fwd", 0)

    def wanted(f):
        # mainline revisions whose tree differs from the left-hand parent at
        # this file (the first revision in which it exists included)
        return [r for i, r in enumerate(lh)
                if ts[r][f] != (ts[lh[i - 1]][f] if i else frozenset())]

    def all_levels(f, deltas, want, sigs):
        """levels=0: the mainline part is the same, every listed revision is in
        the ancestry, each once, and every revision that touched the file
        directly is listed."""
        try:
            full = loglist(br, levels=0, direction="reverse",
                           specific_files=[f], _match_using_deltas=deltas)
        except _NoSuchFile as exc:
            check(False, sigs["nosuchfile"], [tip, f, deltas, str(exc)])
        idl = [x[0] for x in full]
        check(len(idl) == len(set(idl)), sigs["dup"], [tip, f, deltas, idl])
        check(set(idl) <= gm.ancestry(g, tip), sigs["outside"],
              [tip, f, deltas, idl])
        check([x for x in idl if x in lh] == want[::-1], sigs["mainline"],
              [tip, f, deltas, idl, want])
        check(set(ts[tip][f]) <= set(idl), sigs["misses"],
              [tip, f, deltas, idl, sorted(ts[tip][f])])

    strict = {"nosuchfile": "C25/file-log-nosuchfile",
              "dup": "C25/file-log-duplicates",
              "outside": "C25/file-log-outside-ancestry",
              "mainline": "C25/file-log-all-levels-mainline-part",
              "misses": "C25/file-log-misses-a-revision-that-changed-the-file"}
    def converged(f, want):
        """Mainline revisions that leave the file as it is in the left-hand
        parent but carry another per-file version of it (a merge brought in, or
        recorded, a per-file version with the same text).  Per-file-graph
        matching lists them, tree comparison does not: open finding, reported
        under its own signature after the strict checks."""
        out = []
        for i, r in enumerate(lh):
            if r in want or not i or not ts[r][f]:
                continue
            vers = [br.repository.revision_tree(bz.enc(x)).get_file_revision(f)
                    for x in (r, lh[i - 1])]
            if vers[0] != vers[1]:
                out.append(r)
        return out

    conv_seen = []
    with br.lock_read():
        present = [f for f in FILES if ts[tip][f]]
        for f in present:
            want = wanted(f)
            conv = converged(f, want)
            want_graph = [r for r in lh if r in want or r in conv]
            got = {}
            for deltas in (True, False):
                got[deltas] = [x[0] for x in loglist(
                    br, levels=1, direction="reverse", specific_files=[f],
                    _match_using_deltas=deltas)]
            check(got[True] == want[::-1],
                  "C25/file-log-mainline-not-the-changes",
                  [tip, f, got[True], want])
            check(got[False] == want_graph[::-1],
                  "C25/file-log-mainline-differs-between-matching-modes",
                  [tip, f, got[True], got[False], want, conv])
            all_levels(f, False, want_graph, strict)
            # asking for deltas does not change what is listed
            for dt in ("partial", "full"):
                gd = [x[0] for x in loglist(
                    br, levels=1, direction="reverse", specific_files=[f],
                    _match_using_deltas=True, delta_type=dt)]
                check(gd == got[True], "C25/file-log-changes-with-delta-type",
                      [tip, f, dt, gd, got[True]])
            # a limit is a prefix
            n = 1 + case.get("lim", 0) % 3
            for deltas in (True, False):
                gl = [x[0] for x in loglist(
                    br, levels=1, direction="reverse", specific_files=[f],
                    _match_using_deltas=deltas, limit=n)]
                check(gl == got[deltas][:n], "C25/file-log-limit-not-a-prefix",
                      [tip, f, deltas, n, gl, got[deltas]])
            # a mainline range [i, j] whose end revision has the file: the
            # changes inside the range (the first one judged against its own
            # left-hand parent, as everywhere)
            ra, rb = case.get("range", [0, 0])
            i = 1 + ra % len(lh)
            j = i + rb % (len(lh) - i + 1)
            if ts[lh[j - 1]][f]:
                for deltas in (True, False):
                    base = want if deltas else want_graph
                    gr = [x[0] for x in loglist(
                        br, levels=1, direction="reverse", specific_files=[f],
                        _match_using_deltas=deltas, start_revision=info(br, i),
                        end_revision=info(br, j))]
                    wr = [r for r in lh[i - 1:j] if r in base][::-1]
                    check(gr == wr, "C25/file-log-range-not-the-changes-in-it",
                          [tip, f, deltas, i, j, gr, wr])
            if conv:
                conv_seen.append([tip, f, got[True], got[False], conv])
            if any(len(g[r]) > 1 for r in want):
                label = "file-change-arrives-through-merge"
            elif label is None and any(len(g[r]) > 1 for r in lh):
                label = "file-log-over-merges"
        # several files / a directory (tree comparison is the only mode for
        # these): the union of the single-file answers, newest first
        if len(present) > 1:
            both = [r for r in lh if any(r in wanted(f) for f in present)][::-1]
            gm_ = [x[0] for x in loglist(
                br, levels=1, direction="reverse", specific_files=list(present),
                _match_using_deltas=True)]
            check(gm_ == both, "C25/multi-file-log-not-the-union",
                  [tip, present, gm_, both])
        if ts[tip]["d/f2"]:
            # the directory itself is added by the first revision
            wd = [r for r in lh if r == lh[0] or r in wanted("d/f2")][::-1]
            gd = [x[0] for x in loglist(
                br, levels=1, direction="reverse", specific_files=["d"],
                _match_using_deltas=True)]
            check(gd == wd, "C25/directory-log-not-the-changes-below-it",
                  [tip, gd, wd])
        # Request classes with open findings: one class per case (case["fwd"])
        # so that one finding does not hide another, and after all strict
        # checks so that they hide nothing else.
        check(not conv_seen,
              "C25/file-log-per-file-graph-lists-merge-of-equal-texts",
              conv_seen)
        for f in present:
            want = wanted(f)
            if mode in (1, 2):
                deltas, sig = {
                    1: (True, "C25/forward-file-log-delta-matching"),
                    2: (False, "C25/forward-file-log-per-file-graph")}[mode]
                try:
                    fw = [x[0] for x in loglist(
                        br, levels=1, direction="forward", specific_files=[f],
                        _match_using_deltas=deltas)]
                except _NoSuchFile as exc:
                    fw = ["NoSuchFile", str(exc)]
                check(fw == want, sig, [tip, f, fw, want])
            elif mode == 3:
                one = "C25/all-levels-file-log-delta-matching"
                all_levels(f, True, want, dict.fromkeys(strict, one))
    return ok(label) if label else trivial()


@st.composite
def file_cases(draw, n_max=10):
    n = draw(st.integers(3, n_max))
    if draw(st.integers(0, 4)) == 0:
        n += 6            # more than one batch (9 revisions) of the log pipeline
    revs = []
    for i in range(n):
        rid = "r%d" % i
        if i == 0:
            parents = []
            touch = ["f0"] + draw(st.lists(st.sampled_from(FILES[1:]),
                                           unique=True))
        else:
            left = draw(st.sampled_from([r["id"] for r in revs[-3:]]))
            parents = [left]
            g = {r["id"]: tuple(r["parents"]) for r in revs}
            others = [r["id"] for r in revs
                      if r["id"] not in gm.ancestry(g, left)]
            if others and draw(st.integers(0, 9)) < 5:
                parents.append(draw(st.sampled_from(others)))
            if len(parents) > 1:
                touch = draw(st.lists(st.sampled_from(FILES), unique=True,
                                      max_size=1)) \
                    if draw(st.integers(0, 3)) == 0 else []
            else:
                touch = draw(st.lists(st.sampled_from(FILES), unique=True,
                                      min_size=0, max_size=2))
        revs.append({"id": rid, "parents": parents, "touch": sorted(touch)})
    ids = [r["id"] for r in revs]
    return {"revs": revs, "tip": draw(st.sampled_from(ids[len(ids) // 2:])),
            "format": draw(st.sampled_from(["2a", "2a", "pack-0.92"])),
            "fwd": draw(st.sampled_from([0, 0, 1, 2, 3])),
            "lim": draw(st.integers(0, 2)),
            "range": [draw(st.integers(0, 15)), draw(st.integers(0, 15))]}


def kinds(tier):
    return [
        Kind("dag-log", run_dag,
             strategy=dag_cases(n_max=10 if tier == "quick" else 14),
             examples={"quick": 560, "thorough": 8000}),
        Kind("file-log", run_file,
             strategy=file_cases(n_max=9 if tier == "quick" else 12),
             examples={"quick": 560, "thorough": 8000}),
    ]
