"""C33 - search recipes sent to the server describe exactly the intended revisions.

The client side (vf_search.search_result_from_parent_map / limited_... /
SearchResult built by _walk_to_common_revisions or revision_ids_to_search_result
/ PendingAncestryResult), the wire form (RemoteRepository._serialise_search_*)
and the server replay (SmartServerRepositoryRequest.recreate_search*) are run
back to back on generated revision graphs; the set the server walks is compared
with the set the client meant."""

import contextlib

from hypothesis import strategies as st

from vf.api import Kind, check, ok, rejected, trivial, violation
from vf.lib import graphmodel as gm

PROPERTY = "C33"
LEVEL = "exploration"
TECHNIQUE = ("Hypothesis over revision DAGs and simulated get_parent_map "
             "sessions; client recipe -> wire bytes -> server replay, compared "
             "with the intended set computed by independent graph code")
RULE = ("generated: DAG of 1-30 revisions with ghosts and null:, (a) a client "
        "parent-map cache grown by simulated get_parent_map rounds (requested "
        "keys from the cache frontier, fresh tips, ghosts, null:; the answer "
        "adds whole further breadth-first levels as the real verb does) or an "
        "arbitrary subset of present keys, with the matching missing-key set; "
        "at every round the full recipe and the limited recipe (tips = the "
        "keys requested now, depth 1-8 or 100) are replayed on the server "
        "graph (null: present and parentless); (b) fetch searches built by the "
        "real _walk_to_common_revisions (batch size 1-50) against an ancestry-"
        "closed target, revision_ids_to_search_result on arbitrary sets, "
        "PendingAncestryResult and the empty search, sent through "
        "recreate_search. In the thorough tier the server graph is also a real "
        "2a repository. Non-trivial: the cache is a proper subset of the "
        "ancestry with >= 1 ghost or >= 1 key whose parent is outside the "
        "map (fetch: a search that stops at >= 1 revision or meets a ghost); "
        "distinct by case hash.")
ASSUMPTIONS = [
    "vcsgraph's breadth-first searcher (trusted base) is the graph walker on "
    "both sides",
    "a client cache only holds true parent tuples of present revisions, its "
    "missing-key set only holds ghosts (and null: when it was asked for "
    "together with other keys), and the keys requested now are not cached",
    "the server repository graph has null: as a present parentless node, as "
    "every real repository graph does",
]
NONTRIVIAL_FLOOR = {"quick": 500, "thorough": 10000}

NULL = b"null:"


def enc(s):
    return s.encode("ascii")


class StubRepo:
    """What recreate_search needs of a repository: lock_read + get_graph."""

    def __init__(self, pm):
        self.pm = dict(pm)
        self.pm[NULL] = ()

    def get_graph(self):
        from vcsgraph.graph import DictParentsProvider, Graph
        return Graph(DictParentsProvider(self.pm))

    def lock_read(self):
        return contextlib.nullcontext()

    def lock_write(self):
        return contextlib.nullcontext()


def true_graph(case):
    """{rev: tuple(parents)} in bytes; roots have (null:,)."""
    g = {}
    for rid, ps in case["graph"]:
        g[enc(rid)] = tuple(enc(p) for p in ps) if ps else (NULL,)
    return g


def _server_request():
    from breezy.bzr.smart.repository import SmartServerRepositoryRequest
    return SmartServerRepositoryRequest.__new__(SmartServerRepositoryRequest)


def _serialise_recipe(start, stop, count):
    from breezy.bzr.remote import RemoteRepository
    return RemoteRepository._serialise_search_recipe(
        None, ("manual", start, stop, count))


# ----------------------------------------------------------- session model

def answer(g, cache, missing, requested, extra_levels):
    """The effect of one get_parent_map round on the client's cache.

    Mirrors what the verb + CachingParentsProvider do to the cache (whole
    breadth-first levels; ghosts reported as missing; null: never walked)."""
    req = set(requested)
    if NULL in req:
        req.discard(NULL)
        if not req:
            cache[NULL] = ()
            return
        missing.add(NULL)
    level = set(req)
    queried = set()
    first = True
    depth = 0
    while level:
        queried |= level
        nxt = set()
        for k in sorted(level):
            ps = g.get(k)
            if ps is None:
                missing.add(k)
                continue
            if first or k not in cache:
                cache[k] = ps
            if ps != (NULL,):
                nxt.update(ps)
        first = False
        if depth >= extra_levels:
            break
        depth += 1
        level = nxt - queried
    return


def frontier(cache, missing):
    ref = set()
    for ps in cache.values():
        ref.update(ps)
    return ref - set(cache) - missing


def descendants_within(cache, tips, depth):
    """Keys of the cache at child-distance 1..depth from the tips."""
    ch = {}
    for k, ps in cache.items():
        for p in ps:
            ch.setdefault(p, set()).add(k)
    seen = set(tips)
    layer = set(tips)
    out = set()
    for _ in range(depth):
        nxt = set()
        for p in layer:
            nxt |= ch.get(p, set())
        nxt -= seen
        if not nxt:
            break
        seen |= nxt
        out |= nxt
        layer = nxt
    return out


def _nontrivial_cache(g, cache, missing):
    if not cache:
        return None
    present = set(g)
    proper = set(cache) - {NULL} != present
    ghosts = any(p not in g and p != NULL for ps in cache.values()
                 for p in ps)
    outside = any(p in g and p not in cache for ps in cache.values()
                  for p in ps)
    if not proper or not (ghosts or outside):
        return None
    lab = []
    if ghosts:
        lab.append("ghost")
    if outside:
        lab.append("parent-outside")
    if NULL in missing:
        lab.append("null-missing")
    return "+".join(lab)


# ------------------------------------------------------------------ oracle

def check_full(repo, g, cache, missing, tag):
    from breezy.bzr import vf_search
    start, stop, count = vf_search.search_result_from_parent_map(
        dict(cache), set(missing))
    body = _serialise_recipe(start, stop, count)
    res, err = _server_request().recreate_search_from_recipe(
        repo, body.split(b"\n"))
    detail = [tag, _show(cache), sorted(missing), sorted(start), sorted(stop),
              count]
    if err is not None:
        check(False, "C33/full-recipe-count-rejected-by-server",
              detail + [repr(err)])
    keys = set(res.get_keys())
    want = set(cache)
    parents = set(p for ps in cache.values() for p in ps)
    if NULL in parents and NULL in missing:
        # documented adjustment: null: is then walked and counted
        want.add(NULL)
    if cache:
        check(keys - want == set(), "C33/full-recipe-walks-extra-revisions",
              detail + [sorted(keys - want)])
        check(want - keys == set(), "C33/full-recipe-misses-revisions",
              detail + [sorted(want - keys)])
    else:
        check(not keys, "C33/empty-cache-walks-revisions", detail)


def check_limited(repo, g, cache, missing, tips, depth, tag):
    from breezy.bzr import vf_search
    start, stop, count = vf_search.limited_search_result_from_parent_map(
        dict(cache), set(missing), set(tips), depth)
    body = _serialise_recipe(start, stop, count)
    res, err = _server_request().recreate_search_from_recipe(
        repo, body.split(b"\n"))
    detail = [tag, _show(cache), sorted(missing), sorted(tips), depth,
              sorted(start), sorted(stop), count]
    if err is not None:
        check(False, "C33/limited-recipe-count-rejected-by-server",
              detail + [repr(err)])
    keys = set(res.get_keys())
    check(keys <= set(cache), "C33/limited-recipe-walks-revisions-not-seen",
          detail + [sorted(keys - set(cache))])
    check(len(keys) == count, "C33/limited-recipe-count-differs", detail)
    near = descendants_within(cache, tips, depth)
    check(near <= keys, "C33/limited-recipe-omits-revisions-near-the-tips",
          detail + [sorted(near - keys)])
    check(not (keys & set(tips)), "C33/limited-recipe-includes-a-tip", detail)


def _show(cache):
    return sorted((k.decode(), [p.decode() for p in ps])
                  for k, ps in cache.items())


def run_session(case, env):
    g = true_graph(case)
    repo = _repo_for(case, g, env)
    with repo.lock_read():
        return _run_session(case, g, repo)


def _run_session(case, g, repo):
    cache = {}
    missing = set()
    labels = []
    if case.get("subset") is not None:
        # arbitrary subset of the present keys, full form only
        for k in case["subset"]:
            cache[enc(k)] = g[enc(k)]
        missing = set(enc(m) for m in case["missing"])
        check_full(repo, g, cache, missing, "subset")
        lab = _nontrivial_cache(g, cache, missing)
        return ok("subset:" + lab) if lab else trivial()
    for i, rnd in enumerate(case["rounds"]):
        req = set(enc(k) for k in rnd["keys"])
        tips = req - {NULL}
        # the recipes the client would send with this request
        check_full(repo, g, cache, missing, "round%d" % i)
        if tips:
            check_limited(repo, g, cache, missing, tips, rnd["depth"],
                          "round%d" % i)
        lab = _nontrivial_cache(g, cache, missing)
        if lab:
            labels.append(lab)
        answer(g, cache, missing, req, rnd["extra"])
    check_full(repo, g, cache, missing, "final")
    lab = _nontrivial_cache(g, cache, missing)
    if lab:
        labels.append(lab)
    if not labels:
        return trivial()
    return ok("session:" + max(labels, key=lambda s: (s.count("+"), s)))


# --------------------------------------------------------- fetch searches

def run_fetch(case, env):
    g = true_graph(case)
    source = _repo_for(case, g, env)
    with source.lock_read():
        return _run_fetch(case, g, source)


def _run_fetch(case, g, source):
    from breezy import errors
    from breezy.bzr import vf_search
    from breezy.bzr.remote import RemoteRepository
    from breezy.bzr.vf_repository import (InterVersionedFileRepository,
                                          VersionedFileRepository)
    kind = case["kind"]
    req = _server_request()
    if kind == "walk":
        have = gm.ancestry_many(g, [enc(h) for h in case["have"]])
        have.discard(NULL)
        target = StubRepo({k: g[k] for k in have})
        inter = InterVersionedFileRepository.__new__(
            InterVersionedFileRepository)
        inter.source = source
        inter.target = target
        inter._walk_to_common_revisions_batch_size = case["batch"]
        heads = [enc(h) for h in case["heads"]]
        ifp = [enc(h) for h in case["if_present"]]
        try:
            result = inter._walk_to_common_revisions(heads, ifp or None)
        except errors.NoSuchRevision:
            absent = [h for h in heads if h not in g]
            check(absent, "C33/walk-refuses-present-heads", [case])
            return rejected("NoSuchRevision-required-head-is-a-ghost")
        intended = set(result.get_keys())
        stops = bool(have & gm.ancestry_many(g, heads + ifp))
        ghosts = any(p not in g and p != NULL
                     for k in intended for p in g.get(k, ()))
        label = None
        if intended and (stops or ghosts):
            label = "walk:" + "+".join(
                [x for x, c in (("stops", stops), ("ghost", ghosts)) if c])
    elif kind == "ids":
        rs = set(enc(k) for k in case["ids"])
        if case["via"] == "remote":
            result = RemoteRepository.revision_ids_to_search_result(source, rs)
        else:
            result = VersionedFileRepository.revision_ids_to_search_result(
                source, rs)
        intended = set(rs)
        check(set(result.get_keys()) == intended,
              "C33/ids-search-result-keys-differ", [case])
        holes = any(p in g and p not in rs for k in rs for p in g[k])
        label = "ids:holes" if holes and len(rs) > 1 else None
    elif kind == "ancestry":
        heads = [enc(h) for h in case["heads"]]
        result = vf_search.PendingAncestryResult(heads, source)
        intended = gm.ancestry_many(g, heads)
        intended.discard(NULL)
        label = "ancestry-of" if len(intended) > 1 else None
    else:
        result = vf_search.SearchResult(set(), set(), 0, [])
        intended = set()
        label = None
    wire = RemoteRepository._serialise_search_result(None, result)
    check(isinstance(wire, bytes), "C33/serialised-search-not-bytes", [case])
    res, err = req.recreate_search(source, wire)
    if err is not None:
        check(False, "C33/fetch-search-rejected-by-server",
              [case, repr(wire), repr(err)])
    keys = set(res.get_keys())
    check(keys - intended == set(), "C33/fetch-search-walks-extra-revisions",
          [case, repr(wire), sorted(keys - intended)])
    check(intended - keys == set(), "C33/fetch-search-misses-revisions",
          [case, repr(wire), sorted(intended - keys)])
    if kind in ("walk", "ids"):
        recipe = res.get_recipe()
        check(recipe[3] == len(intended), "C33/fetch-search-count-differs",
              [case, repr(wire), recipe[3], len(intended)])
    return ok(label) if label else trivial()


# ------------------------------------------------------- real repositories

def _repo_for(case, g, env):
    if not case.get("real"):
        return StubRepo(g)
    return _real_repo(case, env)


def _real_repo(case, env):
    """A 2a repository holding exactly the generated graph."""
    from breezy import controldir
    from breezy.branchbuilder import BranchBuilder
    d = env.newdir("c33")
    fmt = controldir.format_registry.make_controldir("2a")
    br = controldir.ControlDir.create_branch_convenience(
        d, format=fmt, force_new_tree=False)
    bb = BranchBuilder(branch=br)
    bb.start_series()
    try:
        for rid, ps in case["graph"]:
            acts = []
            if not ps:
                # a root revision: an empty tree with the root directory
                acts = [("add", ("", b"root-id", "directory", None))]
            bb.build_snapshot([enc(p) for p in ps], acts,
                              revision_id=enc(rid))
    finally:
        bb.finish_series()
    repo = br.repository
    return repo


# ------------------------------------------------- real client, real server

class _DirServer:
    def __init__(self, path):
        self.path = path

    def get_url(self):
        from breezy import urlutils
        return urlutils.local_path_to_url(self.path) + "/"


def remote_setup(env):
    from breezy.tests import test_server
    srv = test_server.SmartTCPServer_for_testing()
    srv.start_server(_DirServer(env.root))
    env.shared["c33srv"] = srv


def remote_teardown(env):
    srv = env.shared.pop("c33srv", None)
    if srv is not None:
        srv.stop_server()


def run_remote(case, env):
    """The whole path: RemoteRepository.get_parent_map with its cache on,
    over a real smart server; the recipe every request carried is observed on
    the server side and compared with the cache the client had when it sent
    it."""
    import os
    from breezy import repository as _mod_repository
    from breezy import transport as _mod_transport
    from breezy.bzr.remote import RemoteRepository
    from breezy.bzr.smart.repository import SmartServerRepositoryRequest
    g = true_graph(case)
    real = _real_repo(case, env)
    path = real.controldir.root_transport.local_abspath(".")
    url = env.shared["c33srv"].get_url() + os.path.relpath(path, env.root)
    sent = []       # client cache keys at the time of each request
    seen = []       # what the server made of the recipe
    orig_rpc = RemoteRepository._get_parent_map_rpc
    orig_rec = SmartServerRepositoryRequest.recreate_search_from_recipe

    def rpc(self, keys):
        cached = self._unstacked_provider.get_cached_map() or {}
        if set(keys) - {NULL}:
            # (a request for null: alone is answered without the server)
            sent.append((set(cached), set(keys)))
        return orig_rpc(self, keys)

    def rec(self, repository, lines, discard_excess=False):
        res = orig_rec(self, repository, lines, discard_excess)
        seen.append((list(lines), res))
        return res

    from breezy.bzr.smart.repository import SmartServerRepositoryGetParentMap
    # a server that answers only what was asked stands for a history too big
    # for one 64 kB answer: the walk then takes many requests, each with a
    # recipe describing a growing cache
    orig_extra = SmartServerRepositoryGetParentMap.no_extra_results
    SmartServerRepositoryGetParentMap.no_extra_results = bool(
        case.get("no_extra"))
    t = _mod_transport.get_transport_from_url(url)
    RemoteRepository._get_parent_map_rpc = rpc
    SmartServerRepositoryRequest.recreate_search_from_recipe = rec
    try:
        repo = _mod_repository.Repository.open(url)
        check(isinstance(repo, RemoteRepository),
              "C33/harness-not-a-remote-repository", [repr(repo)])
        labels = []
        with repo.lock_read():
            for i, rnd in enumerate(case["rounds"]):
                keys = [enc(k) for k in rnd["keys"]]
                got = repo.get_parent_map(keys)
                want = {k: g[k] for k in keys if k in g}
                got = {k: v for k, v in dict(got).items() if k != NULL}
                # (whether null: itself is answered is not this property's
                # business)
                check(got == want, "C33/remote-get_parent_map-differs",
                      [i, rnd["keys"], _show(got), _show(want)])
            # everything the client has not asked about yet
            tips = [enc(t_) for t_ in case["tips"]]
            anc = set(k for k, ps in repo.get_graph().iter_ancestry(tips)
                      if ps is not None and k != NULL)
            wanta = gm.ancestry_many(g, tips)
            wanta.discard(NULL)
            check(anc == wanta, "C33/remote-ancestry-differs",
                  [case["tips"], sorted(anc ^ wanta)])
            lab = _nontrivial_cache(
                g, dict(repo._unstacked_provider.get_cached_map() or {}),
                set())
        check(len(sent) == len(seen), "C33/harness-request-count-differs",
              [len(sent), len(seen)])
        partial = False
        for (cached, asked), (lines, (res, err)) in zip(sent, seen):
            detail = [sorted(cached), sorted(asked),
                      [ln.decode("utf-8", "replace") for ln in lines]]
            if err is not None:
                check(False, "C33/remote-recipe-count-rejected-by-server",
                      detail + [repr(err)])
            keys = set(res.get_keys())
            check(keys - {NULL} <= cached,
                  "C33/remote-recipe-walks-revisions-not-seen",
                  detail + [sorted(keys - cached)])
            if cached and keys:
                partial = True
    finally:
        RemoteRepository._get_parent_map_rpc = orig_rpc
        SmartServerRepositoryRequest.recreate_search_from_recipe = orig_rec
        SmartServerRepositoryGetParentMap.no_extra_results = orig_extra
        t.disconnect()
        try:
            repo._client._medium.disconnect()
        except (AttributeError, NameError):
            pass
    if not partial:
        return trivial()
    return ok("remote-session")


# --------------------------------------------------------------- generation

@st.composite
def gen_graph(draw, n_max=30):
    n = draw(st.sampled_from([1, 2, 3] + list(range(4, n_max + 1)) * 2))
    ids = ["r%d" % i for i in range(n)]
    ghosts = ["g0", "g1", "g2"]
    use_ghosts = draw(st.sampled_from([True, True, False]))
    graph = []
    for i, r in enumerate(ids):
        if i == 0 or draw(st.sampled_from([False] * 9 + [True])):
            ps = []
        else:
            recent = ids[max(0, i - 3):i]
            k = draw(st.sampled_from([1, 1, 1, 2, 2, 3]))
            ps = []
            for j in range(k):
                pool = recent if draw(st.booleans()) else ids[:i]
                p = draw(st.sampled_from(pool))
                if p not in ps:
                    ps.append(p)
        if use_ghosts and draw(st.sampled_from([False] * 5 + [True])):
            gh = draw(st.sampled_from(ghosts))
            if draw(st.booleans()) or not ps:
                ps = ps + [gh]
            else:
                ps = [gh] + ps
        graph.append([r, ps])
    return graph


@st.composite
def gen_session(draw):
    graph = draw(gen_graph())
    case = {"graph": graph, "real": False}
    g = true_graph(case)
    present = sorted(g)
    allghosts = sorted(set(p for ps in g.values() for p in ps
                           if p not in g and p != NULL))
    if draw(st.sampled_from([False, False, False, True])):
        sub = draw(st.lists(st.sampled_from(present), min_size=1,
                            unique=True))
        missing = draw(st.lists(st.sampled_from(allghosts), unique=True)) \
            if allghosts else []
        if draw(st.booleans()):
            missing = missing + [NULL]
        case["subset"] = sorted(k.decode() for k in sub)
        case["missing"] = sorted(m.decode() for m in missing)
        return case
    case["subset"] = None
    cache = {}
    missing = set()
    rounds = []
    tips = gm.heads(g, present)
    nrounds = draw(st.integers(1, 6))
    for i in range(nrounds):
        fr = sorted(frontier(cache, missing) - {NULL})
        keys = set()
        if i == 0 or not fr or draw(st.sampled_from([False] * 4 + [True])):
            pool = [k for k in (tips if draw(st.booleans()) else present)
                    if k not in cache]
            if pool:
                keys.update(draw(st.lists(st.sampled_from(pool), min_size=1,
                                          max_size=3, unique=True)))
        if fr:
            if draw(st.sampled_from([True, True, False])):
                keys.update(fr)
            else:
                keys.update(draw(st.lists(st.sampled_from(fr), min_size=1,
                                          unique=True)))
        if draw(st.sampled_from([False] * 5 + [True])):
            keys.add(NULL)
        if draw(st.sampled_from([False] * 7 + [True])):
            keys.add(b"nowhere%d" % i)
        keys -= set(cache)
        keys -= missing
        if not keys:
            break
        rnd = {"keys": sorted(k.decode() for k in keys),
               "extra": draw(st.sampled_from([0, 0, 0, 1, 1, 2, 3])),
               "depth": draw(st.sampled_from([1, 1, 2, 2, 3, 4, 8, 100]))}
        rounds.append(rnd)
        answer(g, cache, missing, keys, rnd["extra"])
    case["rounds"] = rounds
    return case


@st.composite
def gen_fetch(draw):
    graph = draw(gen_graph(n_max=24))
    case = {"graph": graph, "real": False}
    g = true_graph(case)
    present = sorted(k.decode() for k in g)
    ghosts = sorted(set(p.decode() for ps in g.values() for p in ps
                        if p not in g and p != NULL))
    kind = draw(st.sampled_from(["walk", "walk", "walk", "ids", "ids",
                                 "ancestry", "empty"]))
    case["kind"] = kind
    if kind == "walk":
        case["heads"] = draw(st.lists(st.sampled_from(present[-4:] + present),
                                      min_size=1, max_size=3, unique=True))
        pool = present + ghosts + ["elsewhere"]
        case["if_present"] = draw(st.lists(st.sampled_from(pool), max_size=2,
                                           unique=True))
        if draw(st.sampled_from([False] * 9 + [True])) and ghosts:
            case["heads"] = case["heads"] + [draw(st.sampled_from(ghosts))]
        case["have"] = draw(st.lists(
            st.sampled_from(present),
            min_size=draw(st.sampled_from([0, 1, 1, 1])), max_size=3,
            unique=True))
        case["batch"] = draw(st.sampled_from([1, 1, 2, 3, 5, 50]))
    elif kind == "ids":
        case["ids"] = draw(st.lists(st.sampled_from(present), min_size=1,
                                    unique=True))
        case["via"] = draw(st.sampled_from(["remote", "vf"]))
    elif kind == "ancestry":
        pool = present + ghosts + ["null:"]
        case["heads"] = draw(st.lists(st.sampled_from(pool), min_size=1,
                                      max_size=3, unique=True))
    return case


def _real(strategy, n_max):
    def mk(case):
        case = dict(case)
        case["real"] = True
        return case
    return strategy.filter(
        lambda c: len(c["graph"]) <= n_max and _buildable(c)).map(mk)


def _buildable(case):
    # BranchBuilder needs a present left-hand parent or none at all
    for rid, ps in case["graph"]:
        if ps and ps[0].startswith("g"):
            return False
    return True


@st.composite
def gen_remote(draw):
    case = draw(_real(gen_session().filter(
        lambda c: c.get("subset") is None), 12))
    g = true_graph(case)
    present = sorted(k.decode() for k in g)
    case["tips"] = draw(st.lists(st.sampled_from(present[-3:] + present),
                                 min_size=1, max_size=2, unique=True))
    case["no_extra"] = draw(st.sampled_from([True, True, True, False]))
    return case


def kinds(tier):
    ks = [
        Kind("parent-map-session", run_session, strategy=gen_session(),
             examples={"quick": 4000, "thorough": 250000}),
        Kind("fetch-search", run_fetch, strategy=gen_fetch(),
             examples={"quick": 3000, "thorough": 150000}),
        Kind("real-repository-session", run_session,
             strategy=_real(gen_session(), 10),
             examples={"quick": 100, "thorough": 6000}),
        Kind("real-repository-fetch", run_fetch,
             strategy=_real(gen_fetch(), 10),
             examples={"quick": 100, "thorough": 6000}),
        Kind("remote-session", run_remote, strategy=gen_remote(),
             setup=remote_setup, teardown=remote_teardown,
             examples={"quick": 160, "thorough": 6000}),
    ]
    return ks


REGISTERED = True
LEVEL_TEXT = ("Recipes are built by the client code, serialised and replayed by "
              "the server code on thousands of generated graphs and cache "
              "states, and the walked set is compared with the intended one "
              "computed by independent set algorithms. Sampled graphs up to 30 "
              "revisions: exploration.")
LEVEL_NOTE = ("vcsgraph's searcher is trusted; caches are those a sequence of "
              "get_parent_map answers can produce (or arbitrary subsets for the "
              "full form); most cases use a stub repository exposing the true "
              "graph with null: present, a smaller share a real 2a repository.")
