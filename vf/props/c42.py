"""C42 - exports contain exactly the exported tree.

A generated tree (files incl. empty and binary, nested and empty directories,
symlinks, exec bits, unusual names) is committed through a real working tree
(2a or git); its revision tree is exported with breezy.export.export to a
directory, tar, tgz, tbz2, txz, tlzma or zip under generated root / subdir /
per_file_timestamps settings; the result is read with Python's own tarfile /
zipfile / os.walk and compared with the tree model."""

import bz2
import gzip
import io
import lzma
import os
import stat
import tarfile
import zipfile

from hypothesis import strategies as st

from vf.api import Kind, check, ok, rejected, trivial, violation
from vf.lib import bz
from vf.lib import history as H
from vf.lib import treemodel as tm

PROPERTY = "C42"
LEVEL = "exploration"
TECHNIQUE = ("Hypothesis over tree models and export settings; archives read "
             "back with the Python standard library and compared with the "
             "model of the committed tree")
RULE = ("generated: one-revision tree of 1-12 entries (files: empty, text, no "
        "final newline, binary with NUL/CR/0xff, 70 kB; nested and empty "
        "directories; symlinks incl. dangling and '../' targets; exec bits; "
        "names with space, unicode, leading '-', '.hidden', '.bzrignore', "
        "'.bzrrules', '.gitignore', 'x.lnk') committed in a 2a or git working "
        "tree, then 1-3 exports of its revision tree: format in {dir, tar, "
        "tgz, tbz2, txz, tlzma, zip} given explicitly or by file extension, "
        "root in {None, name, ''}, subdir in {None, '', a directory (with or "
        "without trailing '/'), a file}, per_file_timestamps on/off, and for "
        "dir the destination absent / empty / non-empty (refusal). Non-trivial: "
        "the tree has a symlink, an exec file and a nested directory and the "
        "export uses a non-default root or a subdir; distinct by case hash.")
ASSUMPTIONS = [
    "tarfile, zipfile, gzip, bz2, lzma and os.walk read archives and "
    "directories faithfully",
    "top-level paths whose name starts with the control directory name "
    "('.bzr' for bzr trees, '.git' for git trees) are the documented special "
    "files an export leaves out",
    "git trees have no empty directories",
    "the process umask leaves the owner bits alone",
]
NONTRIVIAL_FLOOR = {"quick": 100, "thorough": 3000}

TAR_FORMATS = ("tar", "tgz", "tbz2", "txz", "tlzma")
EXT = {"tar": ".tar", "tgz": ".tar.gz", "tbz2": ".tar.bz2", "txz": ".tar.xz",
       "tlzma": ".tar.lzma", "zip": ".zip", "dir": ""}
ALT_EXT = {"tgz": ".tgz", "tbz2": ".tbz2"}


# ------------------------------------------------------------------ expected

def expected_members(model, fmt, subdir):
    """{relative path: [kind, bytes|target|None, exec]} the export must hold."""
    snap = tm.snapshot(model, with_ids=False)
    special = ".git" if fmt == "git" else ".bzr"
    if fmt == "git":
        # git does not version empty directories
        keep = set()
        for p, (kind, content, ex, _) in snap.items():
            if kind != "directory":
                parts = p.split("/")
                for i in range(1, len(parts)):
                    keep.add("/".join(parts[:i]))
        snap = {p: v for p, v in snap.items()
                if v[0] != "directory" or p in keep}
    out = {}
    sub = None if subdir in (None, "") else subdir.rstrip("/")
    for p, (kind, content, ex, _) in snap.items():
        if p.startswith(special):
            continue
        if sub is None:
            rel = p
        elif p == sub:
            if kind == "directory":
                continue
            rel = p.rsplit("/", 1)[-1]
        elif p.startswith(sub + "/"):
            rel = p[len(sub) + 1:]
        else:
            continue
        if kind == "file":
            out[rel] = ["file", bz.cbytes(content), bool(ex)]
        elif kind == "symlink":
            out[rel] = ["symlink", content, None]
        else:
            out[rel] = ["directory", None, None]
    return out


# ------------------------------------------------------------------- readers

def read_dir(root):
    out = {}
    for d, ds, fs in os.walk(root):
        for name in sorted(ds + fs):
            p = os.path.join(d, name)
            rel = os.path.relpath(p, root)
            st_ = os.lstat(p)
            if stat.S_ISLNK(st_.st_mode):
                out[rel] = ["symlink", os.readlink(p), None]
            elif stat.S_ISDIR(st_.st_mode):
                out[rel] = ["directory", None, None]
            else:
                with open(p, "rb") as f:
                    out[rel] = ["file", f.read(), bool(st_.st_mode & 0o100)]
        # os.walk does not follow symlinked directories: fine
    return out


def read_tar(path, fmt):
    with open(path, "rb") as f:
        data = f.read()
    if fmt == "tgz":
        data = gzip.decompress(data)
    elif fmt == "tbz2":
        data = bz2.decompress(data)
    elif fmt in ("txz", "tlzma"):
        data = lzma.decompress(data)
    out = {}
    names = []
    with tarfile.open(fileobj=io.BytesIO(data), mode="r:") as tf:
        for m in tf.getmembers():
            names.append(m.name)
            if m.isdir():
                val = ["directory", None, None]
            elif m.issym():
                val = ["symlink", m.linkname, None]
            elif m.isreg():
                val = ["file", tf.extractfile(m).read(), bool(m.mode & 0o100)]
            else:
                val = ["other:%r" % m.type, None, None]
            out.setdefault(m.name.rstrip("/"), []).append(val)
    return out


def read_zip(path):
    out = {}
    with zipfile.ZipFile(path) as zf:
        bad = zf.testzip()
        check(bad is None, "C42/zip-member-corrupt", [bad])
        for zi in zf.infolist():
            mode = zi.external_attr >> 16
            if zi.filename.endswith("/"):
                val = ["directory", None, None]
            elif stat.S_IFMT(mode) == stat.S_IFLNK:
                val = ["symlink", zf.read(zi).decode("utf-8"), None]
            else:
                val = ["file", zf.read(zi), bool(mode & 0o100)]
            out.setdefault(zi.filename.rstrip("/"), []).append(val)
    return out


def strip_root(members, root, what, detail):
    """members keyed by archive name -> keyed by path below the root."""
    out = {}
    for name, vals in members.items():
        check(len(vals) == 1, "C42/%s-duplicate-member" % what,
              detail + [name])
        if root:
            check(name == root or name.startswith(root + "/"),
                  "C42/%s-member-outside-root" % what, detail + [name, root])
            rel = name[len(root) + 1:]
            if not rel:
                # the root directory itself may be listed
                check(vals[0][0] == "directory",
                      "C42/%s-root-is-not-a-directory" % what, detail)
                continue
        else:
            rel = name
        check(not rel.startswith("/") and ".." not in rel.split("/"),
              "C42/%s-unsafe-member-name" % what, detail + [name])
        out[rel] = vals[0]
    return out


# -------------------------------------------------------------------- oracle

def compare(what, want, got, detail, pending):
    zipf = what == "zip"
    want = dict(want)
    got = dict(got)
    if zipf:
        # open findings F23, kept apart from everything else
        for rel in sorted(want):
            kind, val, ex = want[rel]
            if kind == "symlink" and rel not in got and \
                    got.get(rel + ".lnk", [None])[0] == "file" and \
                    rel + ".lnk" not in want:
                check(got[rel + ".lnk"][1] == val.encode("utf-8"),
                      "C42/zip-lnk-file-has-wrong-target",
                      detail + [rel, repr(got[rel + ".lnk"][1]), val])
                pending.append(violation("C42/zip-symlink-as-lnk",
                                         detail + [rel]))
                del got[rel + ".lnk"]
                del want[rel]
            elif kind == "file" and ex and rel in got and \
                    got[rel][0] == "file" and not got[rel][2]:
                pending.append(violation("C42/zip-drops-exec-bit",
                                         detail + [rel]))
                want[rel] = [kind, val, False]
    for rel in sorted(set(want) | set(got)):
        if rel not in got:
            check(False, "C42/%s-misses-%s" % (what, want[rel][0]),
                  detail + [rel])
        if rel not in want:
            check(False, "C42/%s-extra-member" % what,
                  detail + [rel, got[rel][0]])
        w, g = want[rel], got[rel]
        check(w[0] == g[0], "C42/%s-kind-differs" % what,
              detail + [rel, w[0], g[0]])
        if w[0] == "file":
            check(w[1] == g[1], "C42/%s-content-differs" % what,
                  detail + [rel, repr(w[1][:60]), repr(g[1][:60])])
            check(w[2] == g[2], "C42/%s-exec-bit-differs" % what,
                  detail + [rel, w[2], g[2]])
        elif w[0] == "symlink":
            check(w[1] == g[1], "C42/%s-symlink-target-differs" % what,
                  detail + [rel, w[1], g[1]])


def run(case, env):
    from breezy import errors
    from breezy import export as _export
    root = env.newdir("c42")
    ops = case["ops"]
    spec = {"revs": [{"id": "r0", "parents": [], "ghosts": [], "ops": ops,
                      "msg": "tree", "ts": bz.T0 + 86400, "tz": 0,
                      "committer": H.COMMITTERS[0], "props": {}}],
            "tags": {}}
    fmt = case["format"]
    wt, models, idmap = H.build_wt(spec, os.path.join(root, "wt"), fmt)
    model = models["r0"]
    tree = wt.branch.repository.revision_tree(idmap["r0"])
    pending = []
    labels = set()
    snap = tm.snapshot(model, with_ids=False)
    rich = (any(v[0] == "symlink" for v in snap.values()) and
            any(v[0] == "file" and v[2] for v in snap.values()) and
            any(v[0] == "directory" and "/" in p for p, v in snap.items()))
    for i, ex in enumerate(case["exports"]):
        ef = ex["format"]
        subdir = ex["subdir"]
        want = expected_members(model, fmt, subdir)
        dest = os.path.join(root, "out%d" % i,
                            ex["base"] + (ex["ext"] if ef != "dir" else ""))
        os.makedirs(os.path.dirname(dest))
        detail = [{"export": ex, "tree": fmt}]
        kw = dict(format=ef if ex["explicit"] else None, root=ex["root"],
                  subdir=subdir, per_file_timestamps=ex["pft"])
        if ef == "dir":
            if ex["dest_state"] == "empty":
                os.mkdir(dest)
            elif ex["dest_state"] == "nonempty":
                os.mkdir(dest)
                with open(os.path.join(dest, "keep"), "w") as f:
                    f.write("mine")
                try:
                    _export.export(tree, dest, **kw)
                except errors.BzrError:
                    check(read_dir(dest) == {"keep": ["file", b"mine", False]},
                          "C42/refused-export-changed-the-directory", detail)
                    labels.add("refused-nonempty-dir")
                    continue
                check(False, "C42/export-into-non-empty-directory-accepted",
                      detail)
            _export.export(tree, dest, **kw)
            got = read_dir(dest)
            compare("dir", want, got, detail, pending)
        else:
            if ex.get("fileobj"):
                with open(dest, "wb") as f:
                    _export.export(tree, dest, fileobj=f, **kw)
            else:
                _export.export(tree, dest, **kw)
            check(os.path.isfile(dest), "C42/archive-not-written", detail)
            if ex["root"] is None:
                aroot = ex["base"]
            else:
                aroot = ex["root"]
            import zlib
            try:
                if ef == "zip":
                    members = read_zip(dest)
                    what = "zip"
                else:
                    members = read_tar(dest, ef)
                    what = "tar"
            except (tarfile.TarError, zipfile.BadZipFile, EOFError, OSError,
                    zlib.error, lzma.LZMAError) as e:
                check(False, "C42/%s-archive-unreadable" % ef,
                      detail + [repr(e)])
            got = strip_root(members, aroot, what, detail)
            compare(what, want, got, detail, pending)
        if rich and (ex["root"] is not None or subdir not in (None, "")):
            labels.add(("dir" if ef == "dir" else "zip" if ef == "zip"
                        else "tar") + ("+subdir" if subdir not in (None, "")
                                       else "+root"))
    nt = sorted(l for l in labels if l != "refused-nonempty-dir")
    lab = (fmt + ":" + nt[0]) if nt else None
    if pending:
        pending[0].label = lab
        return pending[0]
    if lab is None:
        return trivial()
    return ok(lab)


# --------------------------------------------------------------- generation

NAMES = ["a", "b", "c", "d", "e", "a b", "\xe4", "日本", ".hidden",
         "-dash", "A", "x.lnk", ".bzrignore", ".bzrrules",
         ".bzr-notes", ".gitignore", "README.txt"]
SPECIAL = (".bzrignore", ".bzrrules", ".bzr-notes", ".gitignore")
CONTENTS = ["", "alpha\n", "alpha\nbeta\n", "no newline", "\x00\x01\xff\r\n",
            "\r\n\r\n", "x" * 70000, "\xe4\xf6\n"]
TARGETS = ["a", "b/c", "../x", "nowhere", "/abs/path", "\xe4"]


@st.composite
def gen_case(draw):
    fmt = draw(st.sampled_from(["2a", "2a", "git"]))
    n = draw(st.sampled_from([1, 2, 3] + list(range(4, 13)) * 2))
    model = tm.new_model()
    ops = []
    forced = ["directory", "file-x", "directory-nested", "symlink"]
    for i in range(n):
        dirs_ = [d for d in tm.dirs(model) if tm.depth(model, d) < 3]
        if i < len(forced) and n >= 4:
            what = forced[i]
        else:
            what = draw(st.sampled_from(["file", "file", "file-x",
                                         "directory", "symlink"]))
        if what == "directory-nested":
            nonroot = [d for d in dirs_ if d != tm.ROOT_ID]
            parent = draw(st.sampled_from(nonroot or dirs_))
            kind = "directory"
        else:
            parent = draw(st.sampled_from(dirs_))
            kind = what.split("-")[0]
        used = tm.names_in(model, parent)
        free = [x for x in NAMES if x not in used]
        if not free:
            continue
        name = draw(st.sampled_from(free))
        if kind != "file" and name in SPECIAL and fmt == "git":
            continue
        if kind == "file":
            content = draw(st.sampled_from(
                ["", "# comment\n"] if name in SPECIAL else CONTENTS))
            ex = what == "file-x" or draw(st.sampled_from([False, False,
                                                           True]))
        elif kind == "symlink":
            content = draw(st.sampled_from(TARGETS))
            ex = False
        else:
            content, ex = None, False
        op = ["add", "f%d-id" % (i + 1), parent, name, kind, content, ex]
        tm.apply_op(model, op)
        ops.append(op)
    if not ops:
        op = ["add", "f1-id", tm.ROOT_ID, "a", "file", "alpha\n", False]
        tm.apply_op(model, op)
        ops.append(op)
    snap = tm.snapshot(model, with_ids=False)
    special = ".git" if fmt == "git" else ".bzr"
    subdirs = sorted(p for p, v in snap.items()
                     if v[0] == "directory" and not p.startswith(special))
    files = sorted(p for p, v in snap.items()
                   if v[0] != "directory" and not p.startswith(special))
    exports = []
    for j in range(draw(st.sampled_from([1, 2, 2, 3]))):
        ef = draw(st.sampled_from(["dir", "tar", "tgz", "tbz2", "txz", "tlzma",
                                   "zip", "zip", "tgz", "dir"]))
        which = draw(st.sampled_from(["none", "none", "empty", "dir", "dir",
                                      "dir/", "file"]))
        subdir = None
        if which == "empty":
            subdir = ""
        elif which in ("dir", "dir/") and subdirs:
            subdir = draw(st.sampled_from(subdirs)) + (
                "/" if which == "dir/" else "")
        elif which == "file" and files:
            subdir = draw(st.sampled_from(files))
        ext = EXT[ef]
        if ef in ALT_EXT and draw(st.booleans()):
            ext = ALT_EXT[ef]
        explicit = draw(st.booleans()) or ef in ("dir",)
        exports.append({
            "format": ef, "explicit": explicit, "ext": ext,
            "base": draw(st.sampled_from(["proj-1.0", "out", "my export",
                                          "\xe4rchive"])),
            "root": draw(st.sampled_from([None, None, "", "top", "a/b",
                                          "r \xe4"])),
            "subdir": subdir,
            "pft": draw(st.sampled_from([False, False, True])),
            "fileobj": draw(st.sampled_from([False, False, True])),
            "dest_state": draw(st.sampled_from(["absent", "absent", "empty",
                                                "nonempty"])),
        })
    return {"format": fmt, "ops": ops, "exports": exports}


def kinds(tier):
    return [
        Kind("export-tree", run, strategy=gen_case(),
             examples={"quick": 1000, "thorough": 25000}),
    ]


REGISTERED = True
LEVEL_TEXT = ("Generated trees are committed for real and exported in every "
              "format under generated root / subdir settings; the archives are "
              "read back with the standard library and compared member by "
              "member with the tree model. Sampled trees and settings: "
              "exploration.")
LEVEL_NOTE = ("Content filters and nested trees are not generated; timestamps "
              "are not compared; zip's two designed deviations are open "
              "findings and everything else in zip is compared strictly.")
