"""C35 - git object export is consistent and round-trips.

(a) For a native 2a history the git tree of every revision obtained
    incrementally (object store cache warmed by the parents) equals the tree
    obtained from scratch and the tree computed by the harness with plain
    dulwich from the tree model; every object the store hands out hashes to its
    id.
(b) A git repository written with plain dulwich from a generated history is
    fetched into 2a; the object store over the result reproduces the original
    commit, tree and blob objects byte for byte.
(c) A native history pushed (lossy) to git and fetched back into a fresh 2a
    repository has, revision by revision, trees with the same paths, contents,
    exec bits and symlink targets (empty directories excepted)."""

import hashlib
import os

from hypothesis import strategies as st

from vf.api import Kind, check, ok, rejected, trivial, violation
from vf.lib import bz
from vf.lib import graphmodel as gm
from vf.lib import history as H
from vf.lib import treemodel as tm

PROPERTY = "C35"
LEVEL = "exploration"
TECHNIQUE = ("differential (incremental vs from-scratch vs independent dulwich "
             "reference) and round trip (git -> bzr -> git, bzr -> git -> bzr) "
             "over generated histories")
RULE = ("generated: history specs of 4-9 revisions (files, nested and empty "
        "directories, symlinks, exec changes, renames, deletions, merges, "
        "pointless commits, odd names). (a) built as a native 2a history with "
        "a real working tree, object store with a dictionary or the "
        "repository's own cache, updated revision by revision or all at once; "
        "(b) written as a git repository with plain dulwich (tree per revision "
        "from the model, occasionally a file with an unusual mode) and fetched "
        "into 2a revision by revision; (c) built natively, pushed with "
        "lossy=True into a bare git repository and pulled back into a fresh "
        "2a branch. Non-trivial: the history has a rename or exec change below "
        "a non-root directory and a merge; distinct by case hash.")
ASSUMPTIONS = [
    "dulwich computes and serialises git objects faithfully (reference for "
    "tree SHAs and writer of the git repositories of (b))",
    "the 2a working tree builder commits exactly the tree model (checked by "
    "the framework's builder tests, not here)",
    "empty directories do not exist in git: directories without any file or "
    "symlink below them are left out of the comparison",
]
NONTRIVIAL_FLOOR = {"quick": 40, "thorough": 800}


# ------------------------------------------------------------ model -> git

def _children(model):
    ch = {}
    for fid, e in model.items():
        if fid != tm.ROOT_ID:
            ch.setdefault(e["parent"], []).append(fid)
    return ch


def model_objects(model, modes=None):
    """(root tree id, {id: dulwich object}) for a tree model, plain dulwich."""
    from dulwich.objects import Blob, Tree
    ch = _children(model)
    objs = {}
    modes = modes or {}

    def build(fid):
        t = Tree()
        for c in sorted(ch.get(fid, [])):
            e = model[c]
            name = e["name"].encode("utf-8")
            if e["kind"] == "file":
                b = Blob.from_string(bz.cbytes(e["content"]))
                objs[b.id] = b
                mode = 0o100755 if e["exec"] else 0o100644
                mode = modes.get(c, mode)
                t.add(name, mode, b.id)
            elif e["kind"] == "symlink":
                b = Blob.from_string(e["content"].encode("utf-8"))
                objs[b.id] = b
                t.add(name, 0o120000, b.id)
            else:
                sub = build(c)
                if sub is not None:
                    t.add(name, 0o040000, sub.id)
        if len(t) == 0 and fid != tm.ROOT_ID:
            return None
        objs[t.id] = t
        return t
    root = build(tm.ROOT_ID)
    return root.id, objs


def _tree_path(objs, root, oid):
    """path of tree oid below the root tree (for the report)."""
    stack = [(root, "")]
    while stack:
        t, p = stack.pop()
        if t == oid:
            return p
        if t in objs and objs[t].type_name == b"tree":
            for e in objs[t].items():
                stack.append((e.sha, (p + "/" if p else "") +
                              e.path.decode("utf-8", "replace")))
    return None


def _moved_and_lost_child(spec, models, rev, path):
    """Is `path` (in rev's tree) a directory whose path differs from the one
    it had in some parent and which lost a child since that parent?"""
    after = models[rev["id"]]
    fid = None
    for f in after:
        if f != tm.ROOT_ID and tm.path_of(after, f) == path:
            fid = f
    if fid is None:
        return False
    for p in rev["parents"]:
        before = models[p]
        if fid not in before:
            continue
        if tm.path_of(before, fid) == path:
            continue
        was = set(c for c, e in before.items() if e["parent"] == fid)
        now = set(c for c, e in after.items() if e["parent"] == fid)
        if was - now:
            return True
    return False


def git_sha(obj):
    raw = obj.as_raw_string()
    return hashlib.sha1(obj.type_name + b" " + str(len(raw)).encode("ascii") +
                        b"\0" + raw).hexdigest().encode("ascii")


def visible(model):
    """{path: [kind, content-or-target, exec]} without empty directories."""
    snap = tm.snapshot(model, with_ids=False)
    keep = set()
    for p, v in snap.items():
        if v[0] != "directory":
            parts = p.split("/")
            for i in range(1, len(parts)):
                keep.add("/".join(parts[:i]))
    return {p: [v[0], v[1], v[2]] for p, v in snap.items()
            if v[0] != "directory" or p in keep}


def tree_visible(tree):
    snap = bz.snapshot_tree(tree, with_ids=False, contents=True)
    keep = set()
    for p, v in snap.items():
        if v[0] != "directory":
            parts = p.split("/")
            for i in range(1, len(parts)):
                keep.add("/".join(parts[:i]))
    return {p: [v[0], v[1], v[2]] for p, v in snap.items()
            if v[0] != "directory" or p in keep}


def _label(spec):
    """rename / exec change below a non-root directory and a merge."""
    models = H.models_of(spec)
    merge = any(len(r["parents"]) > 1 for r in spec["revs"])
    deep = False
    for r in spec["revs"]:
        if not r["parents"]:
            continue
        before = models[r["parents"][0]]
        after = models[r["id"]]
        for op in r["ops"]:
            if op[0] in ("rename", "chmod") and op[1] in after:
                if after[op[1]]["parent"] != tm.ROOT_ID or (
                        op[1] in before and
                        before[op[1]]["parent"] != tm.ROOT_ID):
                    deep = True
    if merge and deep:
        return "merge+deep-rename-or-exec"
    return None


# ------------------------------------------------------------------- (a)

def run_native(case, env):
    from breezy.git import cache as C
    from breezy.git import mapping as gmap
    from breezy.git.object_store import BazaarObjectStore, _tree_to_objects
    from dulwich.objects import Tree
    spec = case["spec"]
    root = env.newdir("c35")
    wt, models, idmap = H.build_wt(spec, os.path.join(root, "bzr"), "2a")
    repo = wt.branch.repository
    with repo.lock_read():
        store = BazaarObjectStore(repo, gmap.default_mapping)
        if case["cache"] == "dict":
            cache = C.DictBzrGitCache()
            store._cache = cache
            store.start_write_group = cache.idmap.start_write_group
            store.abort_write_group = cache.idmap.abort_write_group
            store.commit_write_group = cache.idmap.commit_write_group
        store.lock_read()
        pending = []
        first_answer = {}
        try:
            if not case["stepwise"]:
                store._update_sha_map()
            for r in spec["revs"]:
                revid = idmap[r["id"]]
                detail = [r["id"]]
                if case["stepwise"]:
                    # warmed by its parents only
                    store._update_sha_map(revid)
                csha = store._lookup_revision_sha1(revid)
                first_answer[revid] = csha
                commit = store[csha]
                check(commit.id == csha and git_sha(commit) == csha,
                      "C35/commit-id-is-not-its-sha1", detail)
                inc = commit.tree
                tree = repo.revision_tree(revid)
                rootobj = None
                for path, obj, key in _tree_to_objects(
                        tree, [], C.DictGitShaMap(), {}, None):
                    check(git_sha(obj) == obj.id,
                          "C35/emitted-object-id-is-not-its-sha1",
                          detail + [path])
                    if path == "":
                        rootobj = obj
                scratch = rootobj.id if rootobj is not None else Tree().id
                ref, refobjs = model_objects(models[r["id"]])
                check(scratch == ref,
                      "C35/from-scratch-tree-differs-from-reference",
                      detail + [scratch, ref])
                check(inc == scratch,
                      "C35/incremental-tree-differs-from-scratch",
                      detail + [inc, scratch])
                # every object of the reference tree can be had from the store
                for oid in sorted(refobjs):
                    try:
                        got = store[oid]
                    except KeyError:
                        if refobjs[oid].type_name != b"tree" or \
                                oid in (ref, scratch):
                            raise
                        # open finding: a directory tree the revision's own
                        # root tree refers to was never emitted
                        tpath = _tree_path(refobjs, ref, oid)
                        sig = "C35/referenced-subtree-object-never-emitted"
                        if not _moved_and_lost_child(spec, models, r, tpath):
                            # not the input class of the open finding
                            sig += "-for-unmoved-directory"
                        pending.append(violation(sig, detail + [oid, tpath]))
                        continue
                    check(got.id == oid and git_sha(got) == oid,
                          "C35/store-object-id-is-not-its-sha1",
                          detail + [oid])
                    check(got.as_raw_string() ==
                          refobjs[oid].as_raw_string(),
                          "C35/store-object-differs-from-reference",
                          detail + [oid])
                parents = [store._lookup_revision_sha1(idmap[p])
                           for p in r["parents"]]
                check(list(commit.parents) == parents,
                      "C35/commit-parents-differ",
                      detail + [list(commit.parents), parents])
            # asked again later, the long-lived store says the same
            store._update_sha_map()
            for revid, csha in sorted(first_answer.items()):
                check(store._lookup_revision_sha1(revid) == csha,
                      "C35/commit-sha-changes-on-a-later-lookup", [revid])
        finally:
            store.unlock()
        if case["cache"] == "default":
            # ... and so does a new store over the persisted cache
            store2 = BazaarObjectStore(repo, gmap.default_mapping)
            store2.lock_read()
            try:
                for revid, csha in sorted(first_answer.items()):
                    check(store2._lookup_revision_sha1(revid) == csha,
                          "C35/commit-sha-differs-in-a-reopened-store",
                          [revid])
            finally:
                store2.unlock()
    lab = _label(spec)
    if lab is not None:
        lab = ("native:" + lab + (":stepwise" if case["stepwise"] else "") +
               ":" + case["cache"])
    if pending:
        pending[0].label = lab
        return pending[0]
    if lab is None:
        return trivial()
    return ok(lab)


# ------------------------------------------------------------------- (b)

def write_git(spec, path, modes):
    """The history as a bare git repository, written with dulwich alone.
    -> (repo, {rev id: commit sha}, {rev id: {oid: object}})"""
    from dulwich.objects import Commit
    from dulwich.repo import Repo
    os.makedirs(path)
    repo = Repo.init_bare(path)
    models = H.models_of(spec)
    shas = {}
    objs_of = {}
    for r in spec["revs"]:
        tree_id, objs = model_objects(models[r["id"]], modes.get(r["id"]))
        for o in objs.values():
            repo.object_store.add_object(o)
        c = Commit()
        c.tree = tree_id
        c.parents = [shas[p] for p in r["parents"]]
        ident = r["committer"].encode("utf-8")
        c.author = c.committer = ident
        c.author_time = c.commit_time = r["ts"]
        c.author_timezone = c.commit_timezone = r["tz"]
        c.message = r["msg"].encode("utf-8")
        repo.object_store.add_object(c)
        shas[r["id"]] = c.id
        objs = dict(objs)
        objs[c.id] = c
        objs_of[r["id"]] = objs
        repo.refs[b"refs/heads/" + r["id"].encode("ascii")] = c.id
    repo.refs[b"refs/heads/master"] = shas[spec["revs"][-1]["id"]]
    repo.refs.set_symbolic_ref(b"HEAD", b"refs/heads/master")
    repo.close()
    return shas, objs_of


def run_git_import(case, env):
    from breezy import branch as _mod_branch
    from breezy import controldir
    from breezy.git import mapping as gmap
    from breezy.git.object_store import BazaarObjectStore
    spec = case["spec"]
    root = env.newdir("c35")
    modes = {r: {f: m for f, m in d.items()}
             for r, d in case["modes"].items()}
    # a mode only applies where the file exists as a file
    models = H.models_of(spec)
    for r in list(modes):
        modes[r] = {f: m for f, m in modes[r].items()
                    if f in models[r] and models[r][f]["kind"] == "file"}
    shas, objs_of = write_git(spec, os.path.join(root, "src.git"), modes)
    gbranch = _mod_branch.Branch.open(os.path.join(root, "src.git"))
    grepo = gbranch.repository
    tgt = controldir.ControlDir.create_branch_convenience(
        os.path.join(root, "imported"), format=bz.fmt("2a"),
        force_new_tree=False)
    mp = gmap.default_mapping
    order = [r["id"] for r in spec["revs"]]
    if case["fetch"] == "tips":
        g = H.graph_of(spec, ghosts=False)
        order = gm.heads(g, order)
    for rid in order:
        try:
            tgt.repository.fetch(
                grepo, revision_id=mp.revision_id_foreign_to_bzr(shas[rid]))
        except AttributeError as e:
            if any(modes.values()) and "iteritems" in str(e):
                return violation(
                    "C35/git-commit-with-unusual-file-mode-cannot-be-imported",
                    [rid, {r: {f: oct(m) for f, m in d.items()}
                           for r, d in modes.items()}, repr(e)],
                    label=None)
            raise
    repo = tgt.repository
    with repo.lock_read():
        store = BazaarObjectStore(repo, mp)
        store.lock_read()
        try:
            for r in spec["revs"]:
                sha = shas[r["id"]]
                revid = mp.revision_id_foreign_to_bzr(sha)
                detail = [r["id"], sha]
                check(repo.has_revision(revid), "C35/imported-revision-absent",
                      detail)
                got = store._lookup_revision_sha1(revid)
                check(got == sha, "C35/reexported-commit-sha-differs",
                      detail + [got])
                for oid, orig in sorted(objs_of[r["id"]].items()):
                    back = store[oid]
                    check(back.id == oid, "C35/reexported-object-id-differs",
                          detail + [oid, back.id])
                    check(back.as_raw_string() == orig.as_raw_string(),
                          "C35/reexported-object-bytes-differ",
                          detail + [oid, repr(back.as_raw_string()[:200]),
                                    repr(orig.as_raw_string()[:200])])
                # the imported tree is the committed one
                want = visible(models[r["id"]])
                have = tree_visible(repo.revision_tree(revid))
                check(want == have, "C35/imported-tree-differs",
                      detail + [_diff(want, have)])
        finally:
            store.unlock()
    lab = _label(spec)
    if lab is None:
        return trivial()
    return ok("git-import:" + lab +
              (":unusual-mode" if any(modes.values()) else ""))


def _diff(a, b):
    return {k: [a.get(k), b.get(k)] for k in sorted(set(a) | set(b))
            if a.get(k) != b.get(k)}


# ------------------------------------------------------------------- (c)

def _missing_objects(gpath):
    """[(kind, sha, referenced from)] not present in the git repository,
    walking from every ref with plain dulwich."""
    from dulwich.repo import Repo
    repo = Repo(gpath)
    try:
        store = repo.object_store
        seen = set()
        missing = []
        stack = [(sha, "commit", "ref " + name.decode("utf-8", "replace"))
                 for name, sha in sorted(repo.get_refs().items())]
        while stack:
            sha, kind, frm = stack.pop()
            if sha in seen:
                continue
            seen.add(sha)
            if sha not in store:
                missing.append([kind, sha.decode("ascii"), frm])
                continue
            o = store[sha]
            if o.type_name == b"commit":
                stack.append((o.tree, "root-tree",
                              "commit " + sha.decode("ascii")))
                for p in o.parents:
                    stack.append((p, "commit", "commit " + sha.decode("ascii")))
            elif o.type_name == b"tree":
                for e in o.items():
                    if e.mode == 0o040000:
                        stack.append((e.sha, "subtree",
                                      "tree " + sha.decode("ascii")))
                    elif e.mode != 0o160000:
                        stack.append((e.sha, "blob",
                                      "tree " + sha.decode("ascii")))
        return missing
    finally:
        repo.close()


def run_push_back(case, env):
    from breezy import branch as _mod_branch
    from breezy import controldir
    from breezy import transport as _mod_transport
    spec = case["spec"]
    root = env.newdir("c35")
    wt, models, idmap = H.build_wt(spec, os.path.join(root, "bzr"), "2a")
    src = wt.branch
    gpath = os.path.join(root, "pushed.git")
    os.makedirs(gpath)
    gcd = controldir.format_registry.make_controldir(
        "git-bare").initialize_on_transport(
            _mod_transport.get_transport(gpath))
    gbranch = gcd.create_branch()
    if case["two_steps"] and len(spec["revs"]) > 2:
        # an earlier tip first, so the second push is incremental
        g = H.graph_of(spec, ghosts=False)
        lh = gm.lefthand(g, spec["revs"][-1]["id"])
        mid = lh[len(lh) // 2]
        src.push(gbranch, lossy=True, stop_revision=idmap[mid])
        gbranch = _mod_branch.Branch.open(gpath)
    res = src.push(gbranch, lossy=True)
    missing = _missing_objects(gpath)
    if missing:
        kinds_ = sorted(set(m[0] for m in missing))
        if kinds_ == ["subtree"]:
            # the open finding: a moved directory's tree was never sent
            sig = "C35/lossy-push-leaves-git-repository-with-missing-tree"
        else:
            sig = ("C35/lossy-push-leaves-git-repository-with-missing-" +
                   "-and-".join(kinds_))
        return violation(sig, [missing[:5]], label=None)
    back = controldir.ControlDir.create_branch_convenience(
        os.path.join(root, "back"), format=bz.fmt("2a"), force_new_tree=False)
    back.pull(_mod_branch.Branch.open(gpath))
    g = H.graph_of(spec, ghosts=False)
    tip = spec["revs"][-1]["id"]
    lh = gm.lefthand(g, tip)
    brepo = back.repository
    with back.lock_read():
        bg = brepo.get_graph()
        blh = list(bg.iter_lefthand_ancestry(back.last_revision(),
                                             [b"null:"]))
        blh.reverse()
        check(len(blh) == len(lh), "C35/round-trip-mainline-length-differs",
              [len(lh), len(blh)])
        for rid, brev in zip(lh, blh):
            want = visible(models[rid])
            have = tree_visible(brepo.revision_tree(brev))
            check(want == have, "C35/round-trip-tree-differs",
                  [rid, _diff(want, have)])
        # the merged-in revisions came along too
        anc = gm.ancestry(g, tip)
        banc = set(k for k, v in bg.iter_ancestry([back.last_revision()])
                   if k != b"null:" and v is not None)
        check(len(banc) == len(anc), "C35/round-trip-ancestry-size-differs",
              [len(anc), len(banc)])
        revidmap = getattr(res, "revidmap", None)
        if revidmap:
            for rid in sorted(anc):
                old = idmap[rid]
                if old not in revidmap:
                    continue
                new = revidmap[old][1]
                check(new in banc, "C35/pushed-revision-not-fetched-back",
                      [rid])
                want = visible(models[rid])
                have = tree_visible(brepo.revision_tree(new))
                check(want == have, "C35/round-trip-tree-differs",
                      [rid, _diff(want, have)])
    lab = _label(spec)
    if lab is None:
        return trivial()
    return ok("push-back:" + lab + (":two-pushes" if case["two_steps"]
                                    else ""))


# --------------------------------------------------------------- generation

@st.composite
def _spec(draw):
    """history_spec, plus: in merge revisions a file that also exists in a
    merged-in parent is often given new content of the same length as that
    parent's (the case where reusing a parent's blob by size would go
    unnoticed)."""
    spec = draw(H.history_spec(n_min=4, n_max=9, merges=True, symlinks=True,
                               execs=True, ghosts=False, tags=False,
                               odd_names=True, ops_max=5))
    models = {}
    for rev in spec["revs"]:
        if rev["parents"]:
            m = tm.clone(models[rev["parents"][0]])
        else:
            m = tm.new_model()
        tm.apply_ops(m, rev["ops"])
        if len(rev["parents"]) > 1 and draw(st.booleans()):
            other = models[rev["parents"][1]]
            left = models[rev["parents"][0]]
            cands = sorted(
                f for f, e in m.items()
                if e["kind"] == "file" and f in other and
                other[f]["kind"] == "file" and other[f]["content"])
            if cands:
                f = draw(st.sampled_from(cands))
                c1 = other[f]["content"]
                for head in ("X", "Y", "Z"):
                    new = head + c1[1:]
                    if new != c1 and new != m[f]["content"] and not (
                            f in left and left[f]["kind"] == "file" and
                            left[f]["content"] == new):
                        op = ["modify", f, new]
                        tm.apply_op(m, op)
                        rev["ops"] = list(rev["ops"]) + [op]
                        break
        models[rev["id"]] = m
    return spec


@st.composite
def gen_native(draw):
    return {"spec": draw(_spec()),
            "cache": draw(st.sampled_from(["dict", "default"])),
            "stepwise": draw(st.booleans())}


@st.composite
def gen_git(draw):
    spec = draw(_spec())
    modes = {}
    if draw(st.sampled_from([False] * 5 + [True])):
        models = H.models_of(spec)
        for r in spec["revs"]:
            files = sorted(f for f, e in models[r["id"]].items()
                           if e["kind"] == "file")
            if files and draw(st.sampled_from([True, False])):
                f = draw(st.sampled_from(files))
                modes.setdefault(r["id"], {})[f] = draw(
                    st.sampled_from([0o100664, 0o100600, 0o100775]))
    return {"spec": spec, "modes": modes,
            "fetch": draw(st.sampled_from(["each", "each", "tips"]))}


@st.composite
def gen_push(draw):
    return {"spec": draw(_spec()), "two_steps": draw(st.booleans())}


def kinds(tier):
    return [
        Kind("native-object-store", run_native, strategy=gen_native(),
             examples={"quick": 300, "thorough": 8000}),
        Kind("git-import-reexport", run_git_import, strategy=gen_git(),
             examples={"quick": 250, "thorough": 6000}),
        Kind("push-lossy-fetch-back", run_push_back, strategy=gen_push(),
             examples={"quick": 220, "thorough": 6000}),
    ]


REGISTERED = True
LEVEL_TEXT = ("Generated histories are converted in three independent ways and "
              "round-tripped through real git and 2a repositories; tree SHAs "
              "are compared with a plain dulwich computation from the tree "
              "model and objects byte for byte. Sampled histories: exploration.")
LEVEL_NOTE = ("dulwich is the trusted reference; ghosts, nested trees and "
              "roundtripping (non-lossy) pushes are not generated; empty "
              "directories are excluded as the property says.")
