"""C45 - end-of-line filters round-trip canonical content.

Three observation levels: the filter stacks through filtered_input_file /
filtered_output_bytes (exhaustive over bounded strings + generated long
strings and chunkings), and real working trees (commit canonical content,
fresh checkout under `eol=` rules, iter_changes / get_file_sha1 / filtered
read-back).
"""

import io
import itertools
import os

from hypothesis import strategies as st

from vf.api import Kind, b2s, check, ok, s2b, trivial, violation

PROPERTY = "C45"
LEVEL = "exploration"
TECHNIQUE = ("exhaustive enumeration of bounded byte strings x all eol settings, "
             "Hypothesis for long strings and chunkings, end-to-end fresh "
             "checkouts under eol rules; round-trip oracle")
RULE = ("Enumerated: every byte string of length <= 7 (quick) / <= 8 (thorough) "
        "over {CR, LF, NUL, 'a'} x the 7 eol settings, one block per (setting, "
        "length, first two symbols); each string is pushed through the setting's "
        "reader/writer stacks whole, byte-per-chunk and split between every CR "
        "and LF. Generated: strings up to 80 bytes built from tokens so that "
        "they are canonical for the drawn setting (or binary, or arbitrary), "
        "random chunkings. End to end: 1-6 files per tree, one setting per "
        "file through `[name *.ext]`, `[name dir/*]`, `[name ./file]` and "
        "`[name dir/**/*.dat]` eol rules (basename and path-anchored "
        "patterns, files in sub-directories), canonical or binary content "
        "committed without rules, then a fresh lightweight checkout with the "
        "rules active. Canonical is decided by an independent predicate (LF in "
        "repository: no CR LF pair; CRLF in repository: no LF without a CR "
        "before it). The input class of open finding "
        "C45/cr-before-crlf-in-crlf-repo (CR immediately before CR LF under "
        "native-/lf-with-crlf-in-repo) is removed from these kinds by "
        "construction and counted by the kind 'f14-excluded-class', whose "
        "evaluation count is the number of excluded inputs. Non-trivial: "
        "canonical text containing both CR and LF, binary content containing "
        "a LF, a checkout whose on-disk bytes differ from the stored ones; "
        "distinct by construction (enumeration) / case hash.")
ASSUMPTIONS = [
    "sys.platform is not win32, so 'native' checks out LF",
    "the per-user rules file of the scratch BRZ_HOME is the only rules source",
]
LEVEL_TEXT = ("The conversion functions are decided completely on all strings up "
              "to the length bound over a 4-symbol alphabet that contains every "
              "byte the converters distinguish (CR, LF, NUL, other); longer "
              "inputs, chunkings and the working-tree path are sampled.")
LEVEL_NOTE = ("Assumes the converters treat every byte other than CR, LF and NUL "
              "alike (read in breezy/filters/eol.py); trusts the dirstate and "
              "repository (bzrformats) to store what they are given.")
REGISTERED = True
NONTRIVIAL_FLOOR = {"quick": 2000, "thorough": 10000}

SETTINGS = ["exact", "native", "lf", "crlf", "native-with-crlf-in-repo",
            "lf-with-crlf-in-repo", "crlf-with-crlf-in-repo"]
CRLF_REPO = {"native-with-crlf-in-repo", "lf-with-crlf-in-repo",
             "crlf-with-crlf-in-repo"}
F14_SETTINGS = {"native-with-crlf-in-repo", "lf-with-crlf-in-repo"}
F14_SIG = "C45/cr-before-crlf-in-crlf-repo"
EXT = {"exact": "ex", "native": "nat", "lf": "lf", "crlf": "crlf",
       "native-with-crlf-in-repo": "ncr", "lf-with-crlf-in-repo": "lcr",
       "crlf-with-crlf-in-repo": "ccr"}
ALPHA = [b"\r", b"\n", b"\0", b"a"]


# ---------------------------------------------------------------- reference

def is_binary(x):
    return b"\0" in x


def is_canonical(setting, x):
    """Independent of the converters: the documented repository convention."""
    if setting == "exact":
        return True
    if setting in CRLF_REPO:
        # CRLF in the repository: no LF without a CR before it
        for i, c in enumerate(x):
            if c == 10 and (i == 0 or x[i - 1] != 13):
                return False
        return True
    return b"\r\n" not in x      # LF in the repository


def in_f14_class(setting, x):
    """Canonical text with a CR immediately before a CR LF pair, under the two
    settings that store CRLF and check out LF (open finding F14)."""
    return (setting in F14_SETTINGS and b"\r\r\n" in x and not is_binary(x)
            and is_canonical(setting, x))


def _stack(setting):
    from breezy.filters import eol
    return eol.eol_lookup(setting)


def read_filter(stack, x):
    """working tree bytes -> repository bytes, as the tree code does it."""
    from breezy import filters
    f, size = filters.filtered_input_file(io.BytesIO(x), stack)
    out = f.read()
    check(size == len(out), "C45/filtered-input-size-differs-from-content",
          [b2s(x), size, len(out)])
    return out


def write_filter(stack, chunks):
    from breezy import filters
    ctx = filters.ContentFilterContext("f")
    return b"".join(filters.filtered_output_bytes(iter(list(chunks)), stack,
                                                  ctx))


def chunkings(x):
    """whole, one byte per chunk, and split inside every CR LF pair."""
    yield [x]
    if len(x) > 1:
        yield [x[i:i + 1] for i in range(len(x))]
        for i in range(1, len(x)):
            if x[i - 1] == 13 and x[i] == 10:
                yield [x[:i], x[i:]]


def oracle(setting, stack, x, chunk_lists=None):
    """-> label or None. Raises Expect on a violation."""
    detail = {"setting": setting, "content": b2s(x)}
    w = write_filter(stack, [x])
    for ch in (chunk_lists if chunk_lists is not None else chunkings(x)):
        w2 = write_filter(stack, ch)
        if w2 != w:
            detail.update(chunks=[b2s(c) for c in ch], whole=b2s(w),
                          chunked=b2s(w2))
            check(False, "C45/writer-depends-on-chunking", detail)
    r = read_filter(stack, x)
    if is_binary(x):
        check(r == x, "C45/binary-converted-by-reader",
              dict(detail, got=b2s(r)))
        check(w == x, "C45/binary-converted-by-writer",
              dict(detail, got=b2s(w)))
        if b"\n" in x:
            return "binary-with-line-ends"
        return None
    if not is_canonical(setting, x):
        return None
    check(r == x, "C45/canonical-content-changed-by-reader",
          dict(detail, got=b2s(r)))
    back = read_filter(stack, w)
    if back != x:
        sig = "C45/canonical-text-not-restored"
        if in_f14_class(setting, x):
            sig = F14_SIG
        check(False, sig, dict(detail, written=b2s(w), read_back=b2s(back)))
    if b"\r" in x and b"\n" in x:
        return "canonical-text-with-CR-and-LF"
    return None


# ---------------------------------------------------------------- exhaustive

def _max_len(tier):
    return 7 if tier == "quick" else 8


def enum_blocks(tier):
    for setting in SETTINGS:
        for n in range(0, _max_len(tier) + 1):
            if n < 2:
                yield {"setting": setting, "len": n, "head": ""}
            else:
                for a, b in itertools.product(ALPHA, repeat=2):
                    yield {"setting": setting, "len": n, "head": b2s(a + b)}


def _block_strings(case):
    head = s2b(case["head"])
    n = case["len"]
    for tail in itertools.product(ALPHA, repeat=n - len(head)):
        yield head + b"".join(tail)


def run_block(case, env):
    setting = case["setting"]
    stack = _stack(setting)
    n = nt = 0
    for x in _block_strings(case):
        if in_f14_class(setting, x):
            continue      # counted and witnessed by run_f14_block
        n += 1
        if oracle(setting, stack, x) is not None:
            nt += 1
    if n == 0:
        return trivial()
    return ok("exhaustive-block" if nt else None, n=n, nt=nt)


def enum_f14_blocks(tier):
    for case in enum_blocks(tier):
        if case["setting"] in F14_SETTINGS and case["len"] >= 3 and any(
                in_f14_class(case["setting"], x)
                for x in _block_strings(case)):
            yield case


def run_f14_block(case, env):
    """The excluded class, evaluated on its own: n = inputs excluded from
    run_block in this block; all of them are expected to show the finding."""
    setting = case["setting"]
    stack = _stack(setting)
    xs = [x for x in _block_strings(case) if in_f14_class(setting, x)]
    if not xs:
        return trivial()
    bad = []
    for x in xs:
        back = read_filter(stack, write_filter(stack, [x]))
        if back != x:
            bad.append(x)
    if bad:
        out = violation(F14_SIG, {"setting": setting, "content": b2s(bad[0]),
                                  "failing": len(bad), "class-size": len(xs)},
                        label="f14-class")
    else:
        out = ok("f14-class")
    out.n = len(xs)
    out.nt = len(xs)
    return out


# ---------------------------------------------------------------- generated

_TOK_LF = [b"a", b"a", b"b", b" ", b"\n", b"\n", b"\r", b"\r\r", b"\n\r",
           b"\n\n", b"ab"]
_TOK_CRLF = [b"a", b"a", b"b", b" ", b"\r\n", b"\r\n", b"\r", b"\r\n\r\n",
             b"ab", b"\ra"]


def _canonical_bytes(draw, setting, max_tokens):
    if setting in CRLF_REPO:
        toks = draw(st.lists(st.sampled_from(_TOK_CRLF), max_size=max_tokens))
        out = b""
        for t in toks:
            if setting in F14_SETTINGS and out.endswith(b"\r") and \
                    t.startswith(b"\r\n"):
                out += b"a"     # keep out of the F14 class by construction
            out += t
        return out
    toks = draw(st.lists(st.sampled_from(_TOK_LF), max_size=max_tokens))
    out = b""
    for t in toks:
        if setting != "exact" and out.endswith(b"\r") and t.startswith(b"\n"):
            out += b"b"
        out += t
    return out


@st.composite
def gen_long(draw):
    setting = draw(st.sampled_from(SETTINGS))
    mode = draw(st.sampled_from(["canon", "canon", "canon", "binary", "any"]))
    if mode == "any":
        x = b"".join(draw(st.lists(st.sampled_from(
            [b"\r", b"\n", b"a", b"\r\n", b" "]), max_size=40)))
        if in_f14_class(setting, x):
            x = x.replace(b"\r\r\n", b"\ra\r\n")
    else:
        x = _canonical_bytes(draw, setting, 40)
        if mode == "binary":
            i = draw(st.integers(0, len(x)))
            x = x[:i] + b"\0" + x[i:]
            if draw(st.booleans()):
                x += draw(st.sampled_from([b"\r\n", b"\n", b"\r\r\n"]))
    cuts = sorted(set(draw(st.lists(st.integers(0, max(0, len(x))),
                                    max_size=5))))
    return {"setting": setting, "content": b2s(x), "cuts": cuts}


def run_long(case, env):
    setting = case["setting"]
    x = s2b(case["content"])
    if in_f14_class(setting, x):
        return trivial()
    cuts = [0] + [c for c in case["cuts"] if 0 < c < len(x)] + [len(x)]
    chunks = [x[a:b] for a, b in zip(cuts, cuts[1:])]
    label = oracle(setting, _stack(setting), x,
                   chunk_lists=[chunks] + list(chunkings(x)))
    return ok(label) if label else trivial()


# ---------------------------------------------------------------- end to end

STYLES = ["ext", "ext", "dir", "root", "deep"]


def _rules_text():
    """Basename rules and path-anchored rules (patterns with a '/': matched
    against the whole tree-relative path) for every setting."""
    out = []
    for s in SETTINGS:
        e = EXT[s]
        for pat in ("*.%s" % e, "p_%s/*" % e, "./r?_%s.txt" % e,
                    "q_%s/**/*.dat" % e):
            out.append("[name %s]\neol = %s\n" % (pat, s))
    return "".join(out)


def _path_for(i, setting, style, subdir):
    e = EXT[setting]
    if style == "dir":
        return "p_%s/f%d.txt" % (e, i)
    if style == "root":
        return "r%d_%s.txt" % (i, e)
    if style == "deep":
        return "q_%s/x/y%d.dat" % (e, i)
    return ("d/" if subdir and i % 2 else "") + "f%d.%s" % (i, e)


def _set_rules(text):
    from breezy import rules
    p = rules.rules_path()
    os.makedirs(os.path.dirname(p), exist_ok=True)
    if text is None:
        if os.path.exists(p):
            os.unlink(p)
    else:
        with open(p, "w") as f:
            f.write(text)
    rules.reset_rules()


def teardown_rules(env):
    _set_rules(None)


@st.composite
def gen_tree(draw, f14=False):
    n = draw(st.integers(1, 6))
    files = []
    for i in range(n):
        setting = draw(st.sampled_from(
            sorted(F14_SETTINGS) if f14 else SETTINGS))
        if f14:
            x = (_canonical_bytes(draw, "crlf-with-crlf-in-repo", 6) +
                 b"\r\r\n" + _canonical_bytes(draw, "crlf-with-crlf-in-repo",
                                              6))
        else:
            x = _canonical_bytes(draw, setting, 16)
            if draw(st.integers(0, 3)) == 0:
                j = draw(st.integers(0, len(x)))
                x = x[:j] + b"\0" + x[j:] + draw(st.sampled_from(
                    [b"", b"\r\n", b"\n"]))
        files.append([draw(st.sampled_from(STYLES)), setting, b2s(x)])
    return {"files": files, "subdir": draw(st.booleans())}


def _hex(h):
    return h.decode("ascii") if isinstance(h, bytes) else h


def run_tree(case, env):
    from breezy import workingtree
    from vf.lib import bz
    files = [(_path_for(i, setting, style, case["subdir"]), setting, s2b(c))
             for i, (style, setting, c) in enumerate(case["files"])]
    anchored = {_path_for(i, setting, style, case["subdir"])
                for i, (style, setting, c) in enumerate(case["files"])
                if style != "ext"}
    for _, setting, c in files:
        check(is_binary(c) or is_canonical(setting, c),
              "C45/harness-generator-not-canonical", case)
    try:
        _set_rules(None)
        a = env.newdir("a")
        wt = bz.init_tree(a)
        for path, _, c in files:
            os.makedirs(os.path.dirname(os.path.join(a, path)), exist_ok=True)
            with open(os.path.join(a, path), "wb") as f:
                f.write(c)
        wt.smart_add([a])
        bz.commit(wt, rev_id="r1")
        basis = wt.basis_tree()
        with basis.lock_read():
            for path, _, c in files:
                check(basis.get_file_text(path) == c,
                      "C45/harness-stored-content-differs", [path, b2s(c)])
        # the rules become active; a fresh checkout is made
        _set_rules(_rules_text())
        b = env.newdir("b")
        os.rmdir(b)
        wt.branch.create_checkout(b, lightweight=True)
        label = None
        for aged in (False, True):
            if aged:
                bz.age_files(b)
            wb = workingtree.WorkingTree.open(b)
            check(wb.supports_content_filtering(),
                  "C45/harness-tree-format-without-filtering", None)
            with wb.lock_read():
                wbasis = wb.basis_tree()
                with wbasis.lock_read():
                    changes = [list(ch.path) for ch in wb.iter_changes(wbasis)]
                    f14 = [p for p, s, c in files if in_f14_class(s, c)]
                    detail = {"case": case, "changes": changes, "aged": aged}
                    if changes:
                        if f14 and all(ch[1] in f14 for ch in changes):
                            check(False, F14_SIG, detail)
                        check(False, "C45/fresh-checkout-reports-changes",
                              detail)
                    for path, setting, c in files:
                        d = {"path": path, "setting": setting,
                             "content": b2s(c), "aged": aged}
                        with open(os.path.join(b, path), "rb") as f:
                            disk = f.read()
                        d["on_disk"] = b2s(disk)
                        if is_binary(c):
                            check(disk == c,
                                  "C45/binary-converted-on-checkout", d)
                        with wb.get_file(path, filtered=True) as f:
                            back = f.read()
                        check(back == c,
                              "C45/checkout-content-not-read-back-unchanged",
                              dict(d, read_back=b2s(back)))
                        check(_hex(wb.get_file_sha1(path)) == bz.sha1(c),
                              "C45/checkout-sha1-differs-from-repository", d)
                        check(_hex(wbasis.get_file_sha1(path)) == bz.sha1(c),
                              "C45/harness-basis-sha1", d)
                        if disk != c:
                            if path in anchored:
                                label = ("checkout-converts-line-ends:"
                                         "path-anchored-rule")
                            elif label is None or not label.endswith("rule"):
                                label = "checkout-converts-line-ends"
                        elif is_binary(c) and b"\n" in c and label is None:
                            label = "binary-left-alone"
        return ok(label) if label else trivial()
    finally:
        _set_rules(None)


def kinds(tier):
    L = _max_len(tier)
    return [
        Kind("exhaustive-len<=%d" % L, run_block, enumerate=enum_blocks,
             exhaustive=True, hash_cases=False),
        Kind("f14-excluded-class", run_f14_block, enumerate=enum_f14_blocks,
             exhaustive=True, hash_cases=False),
        Kind("generated-long", run_long, strategy=gen_long(),
             examples={"quick": 5000, "thorough": 200000}),
        Kind("fresh-checkout", run_tree, strategy=gen_tree(),
             examples={"quick": 200, "thorough": 2000},
             teardown=teardown_rules),
        Kind("fresh-checkout-f14", run_tree, strategy=gen_tree(f14=True),
             examples={"quick": 16, "thorough": 100},
             teardown=teardown_rules),
    ]
