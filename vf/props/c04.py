"""C04 - pack repositories are crash-atomic: for generated pre-states and
operations, EVERY prefix of the operation's mutating transport operations
(plus truncations of the non-atomic ones) is turned into a crashed repository
and checked."""

from unittest import mock

from hypothesis import strategies as st

from vf.api import Inconclusive, Expect, Kind, ok, trivial, violation
from vf.lib import c04_crash as cc
from vf.seam import ft

PROPERTY = "C04"
LEVEL = "fault_enumeration"
TECHNIQUE = ("transport-seam crash-point enumeration: every prefix of the "
             "mutating transport operations of commit / fetch / autopack / "
             "pack, plus truncated non-atomic writes; reopen-and-read oracle "
             "against an independent model of every revision")
RULE = ("A scenario (one Hypothesis case) = format in {2a, pack-0.92}, 0-10 "
        "(thorough 0-25) existing packs with generated revision counts chosen "
        "so that the next write group does or does not autopack, optional real "
        "earlier pack() (populated obsolete_packs/), optional junk files and an "
        "optional EARLIER crashed operation at a generated point (leftovers, "
        "double crash), and the operation: commit, fetch of 1-5 revisions, "
        "pack(), pack(clean_obsolete_packs=True). For the scenario every crash "
        "state is enumerated: the state after the first k mutating operations "
        "for k = 0..n (crash after op k and crash before op k+1 are the same "
        "disk state, enumerated once) and, for every stream write / non-atomic "
        "put, the state with that write truncated (1 prefix quick, 3 thorough; "
        "for a non-atomic put also the emptied file). After every crash state a "
        "recovery operation runs (a fresh commit, or a retry of the same "
        "operation) and the result is verified again. "
        "evaluations = crash states. Non-trivial = crash at or after an "
        "operation on pack-names, packs/, indices/ or obsolete_packs/; counted "
        "per (scenario, k, truncation).")
ASSUMPTIONS = [
    "the crash model grants exactly the atomicity the transport API documents: "
    "put_file / put_bytes / rename / move / delete / mkdir are atomic, stream "
    "writes and *_non_atomic puts may be cut at any byte",
    "all repository I/O of breezy and of the Rust pack/index writers goes "
    "through the transport decorator (observed: index and pack writes appear "
    "in the operation log)",
    "a lock left by the dead process is expected and is broken with "
    "Branch.break_lock() (what `brz break-lock` does) before reading",
    "pack-names is parsed with the trusted-base index reader (bzrformats)",
]
LEVEL_TEXT = ("For each generated scenario the crash points are enumerated "
              "exhaustively (every prefix of the recorded mutating operations, "
              "every non-atomic write additionally truncated); after each one "
              "the repository is reopened, all revisions are read and compared "
              "with an independent model, check() is run, a recovery "
              "operation is performed and everything is verified again. The "
              "scenarios themselves (pack layouts, operation, earlier crash) "
              "are sampled.")
LEVEL_NOTE = ("Trusts the transport seam to see every write (including those "
              "issued from the Rust NewPack/index code) and the documented "
              "atomicity of put_file/rename; power loss reordering below the "
              "file-system API is out of scope.")
REGISTERED = True
NONTRIVIAL_FLOOR = {"quick": 300, "thorough": 5000}

FORMATS = ["2a", "pack-0.92"]
MINIMAL_MARK = "minimal"


def _known():
    from vf import runner
    return runner.load_findings()


def _label(case, autopacked):
    return "%s/%s%s%s" % (case["format"], case["op"]["op"],
                          "+autopack" if autopacked else "",
                          "/after-earlier-crash" if case.get("earlier") else "")


def _allowed(old, oldtip, added, newtip):
    a = [(old, frozenset([oldtip]))]
    if added or newtip != oldtip:
        a.append((frozenset(old | added), frozenset([oldtip, newtip])))
    return a


def _record(run, src, dst):
    cc.copy_state(src, dst)
    with ft.session(mode="record") as c:
        run(ft.url(dst))
    return list(c.log)


def _crash(run, src, dst, k, when, partial, expect_op):
    cc.copy_state(src, dst)
    with ft.session(mode="crash", crash_at=k, crash_when=when,
                    partial=partial) as c:
        try:
            run(ft.url(dst))
        except ft.Crash:
            pass
        except Exception:
            # an exception raised by a finally-clause of the dying process
            # replaced the Crash; the process is dead either way
            if not c.dead:
                raise
    if not c.fired:
        raise AssertionError("crash point %d never reached (ops %d)" % (
            k, c.count))
    got = c.log[k][1]
    if got != expect_op:
        # the subject did not repeat the recorded sequence (bzrformats orders
        # packs of equal size by object address; the autopack plan is pinned in
        # run(), other orders are not): this crash point cannot be judged
        raise Inconclusive("operation sequence changed between runs: "
                           "op %d is %s, recorded %s" % (k, got, expect_op))
    return c


def _partials(name, size, tier):
    """Bytes kept by a truncated non-atomic operation.  A non-atomic put
    replaces the file, so 'nothing written yet' (0 bytes, old content gone)
    is a state of its own; for stream writes / appends 0 bytes is the same
    state as crashing before the operation."""
    puts = name.startswith("put_")
    if size is None:
        # the seam does not know the length of a file-like source
        out = {1} if tier == "quick" else {1, 64}
    elif size < 2:
        out = set()
    elif tier == "quick":
        out = {size // 2}
    else:
        out = {1, size // 2, size - 1}
    if puts:
        out.add(0)
    return sorted(out)


class _ByName:
    """Stands in for a Pack while the autopack plan is sorted: packs with the
    same revision count compare by name instead of by object address
    (bzrformats' Pack.__lt__), so that the recorded run and the crash runs plan
    the same combination.  Either order is one the subject can produce."""

    def __init__(self, pack):
        self.pack = pack

    def __lt__(self, other):
        return self.pack.name < other.pack.name

    def __gt__(self, other):
        return self.pack.name > other.pack.name

    def __eq__(self, other):
        return self.pack is other.pack

    def __hash__(self):
        return hash(self.pack.name)


def run(case, env):
    from breezy.bzr.pack_repo import RepositoryPackCollection as RPC
    o_plan = RPC.plan_autopack_combinations

    def plan(self, existing_packs, pack_distribution):
        ops = o_plan(self, [(c, _ByName(p)) for c, p in existing_packs],
                     pack_distribution)
        return [[n, [w.pack for w in ws]] for n, ws in ops]
    with mock.patch("breezy.lockdir._DEFAULT_TIMEOUT_SECONDS", 0), \
            mock.patch.object(RPC, "plan_autopack_combinations", plan):
        return _run(case, env)


def _run(case, env):
    d = env.newdir()
    fmt = case["format"]
    models = cc.Models(case["nfiles"], case["sizes"])
    total_src = sum(case["packs"]) + 6
    src = cc.build_source(d + "/src", fmt, total_src, models)
    t0 = d + "/t0"
    n0 = cc.build_target(t0, fmt, src.repository, case["packs"],
                         case.get("prepack"))
    if case.get("junk"):
        cc.write_junk(t0)
    if case.get("obsolete_dir"):
        cc.vary_obsolete_dir(t0, case["obsolete_dir"])
    if case["op"]["op"] == "resume-commit":
        case = dict(case, op=dict(case["op"], tokens=cc.suspend_groups(
            t0, src.repository, n0, case["op"]["chunks"], total_src),
            n=sum(case["op"]["chunks"])))
    old = frozenset(cc.rid(i) for i in range(n0))
    tip = cc.rid(n0 - 1) if n0 else b"null:"
    revs, tip, _ = cc.verify(t0, [(old, frozenset([tip]))], models,
                             "pre-state", break_locks=False)
    ctx = cc.Ctx(revs, tip)
    states = 0
    nt = 0
    failures = []          # (signature, detail) of known findings met

    def guarded(fn, *a, **k):
        """Run an oracle step; a known finding is noted and the enumeration
        continues behind it, anything else propagates."""
        try:
            return fn(*a, **k)
        except Expect as e:
            if e.signature in _known():
                failures.append((e.signature, e.detail))
                return None
            raise

    for opn in ("earlier", "op"):
        spec = case.get(opn)
        if spec is None:
            continue
        op = dict(spec["op"] if opn == "earlier" else spec)
        op["src"] = d + "/src"
        added, newtip, runop = cc.plan_op(op, ctx, models, total_src)
        allowed = _allowed(ctx.revs, ctx.tip, added, newtip)
        log = _record(runop, t0, d + "/w")
        n = len(log)
        if opn == "earlier":
            # one generated crash point of an earlier operation: its result is
            # a crash state like any other and becomes the pre-state
            if n == 0:
                continue       # the earlier operation touched nothing
            k = min(n - 1, (spec["at"] * n) // 1000)
            _crash(runop, t0, d + "/w", k, "before", None, log[k][1])
            where = {"earlier": op["op"], "k": k, "of": n,
                     "at": [log[k][1], log[k][2].rsplit("/.bzr/", 1)[-1]]}
            revs, tip, _ = cc.verify(d + "/w", allowed, models, where)
            cc.copy_state(d + "/w", t0)
            ctx = cc.Ctx(revs, tip)
            states += 1
            continue
        autopacked = op["op"] in ("commit", "fetch") and any(
            l[2].endswith(".autopack") for l in log)
        touched = False
        recovery = case.get("recovery", "commit")
        if op["op"] == "resume-commit":
            # a crash may have consumed the suspended packs: the tokens are
            # then legitimately gone, the next writer is a fresh commit
            recovery = "commit"
        for k in range(n + 1):
            points = [("before", None)] if k < n else [("done", None)]
            if k < n and log[k][1] in ft.NON_ATOMIC:
                points += [("partial", p) for p in _partials(
                    log[k][1], log[k][3], env.tier)]
            if k < n and cc.touches_pack_state(log[k][1], log[k][2]):
                touched = True
            for when, part in points:
                w = d + "/w"
                if when == "done":
                    # the complete operation (verified on the recorded run's
                    # twin): exactly the new state, no lock left behind
                    cc.copy_state(t0, w)
                    runop(ft.url(w))
                    where = {"k": n, "of": n, "when": "complete"}
                    al = [(frozenset(ctx.revs | added),
                           frozenset([newtip]))]
                    res = guarded(cc.verify, w, al, models, where,
                                  break_locks=False)
                else:
                    _crash(runop, t0, w, k, when, part, log[k][1])
                    where = {"k": k, "of": n, "when": when, "partial": part,
                             "at": [log[k][1],
                                    log[k][2].rsplit("/.bzr/", 1)[-1]]}
                    res = guarded(cc.verify, w, allowed, models, where)
                states += 1
                if touched:
                    nt += 1
                if res is None:
                    continue
                revs, tip1, names = res
                guarded(cc.leftover_independent, w, names, revs, tip1, where)
                # recovery: the next writer must succeed on top of whatever
                # was left behind
                c2 = cc.Ctx(revs, tip1)
                if recovery == "retry" and (
                        revs == ctx.revs or not added):
                    rspec = op
                else:
                    rspec = {"op": "commit"}
                # keep the models of the main operation intact
                saved = dict(models.revs)
                radded, rtip, rrun = cc.plan_op(rspec, c2, models, total_src)
                rrun(w)
                where2 = dict(where, recovery=rspec["op"])
                guarded(cc.verify, w,
                        [(frozenset(revs | radded), frozenset([rtip]))],
                        models, where2, sig="C04/after-recovery/",
                        break_locks=False)
                models.revs = saved
    if failures:
        sig, detail = failures[0]
        return violation(sig, detail, label=_label(case, autopacked))
    if nt == 0:
        return trivial()
    if case.get("mark") == MINIMAL_MARK and env.shard != 0:
        # Hypothesis starts every shard with the same simplest scenario:
        # evaluate it, but count its crash states as distinct only once
        return ok(_label(case, autopacked), n=states, nt=0)
    return ok(_label(case, autopacked), n=states, nt=nt)


# ------------------------------------------------------------------ generator

def _digitsum(n):
    return sum(int(c) for c in str(n))


def _composition(draw, total, parts):
    """total as an ordered sum of `parts` positive integers."""
    if parts == 0:
        return []
    cuts = sorted(draw(st.lists(st.integers(0, total - parts),
                                min_size=parts - 1, max_size=parts - 1)))
    out = []
    prev = 0
    for c in cuts:
        out.append(c - prev + 1)
        prev = c
    out.append(total - parts - prev + 1)
    return out


def _opspec(draw):
    k = draw(st.sampled_from(["commit", "fetch", "pack", "pack-clean"]))
    if k == "fetch":
        return {"op": "fetch", "n": draw(st.integers(1, 5))}
    return {"op": k}


@st.composite
def scenario(draw, tier):
    maxp = 10 if tier == "quick" else 25
    maxt = 30 if tier == "quick" else 80
    fmt = draw(st.sampled_from(FORMATS))
    op = _opspec(draw)
    npacks = draw(st.integers(0, maxp))
    if op["op"] in ("commit", "fetch"):
        addn = 1 if op["op"] == "commit" else op["n"]
        lo = npacks + addn
        cand_auto = [t for t in range(lo, maxt + 1)
                     if _digitsum(t) < npacks + 1]
        cand_no = [t for t in range(lo, maxt + 1)
                   if _digitsum(t) >= npacks + 1]
        classes = [c for c in (cand_auto, cand_no) if c]
        cand = draw(st.sampled_from(classes))
        total = draw(st.sampled_from(cand)) - addn
    else:
        npacks = max(npacks, 1)
        total = draw(st.integers(npacks, max(npacks, maxt - 6)))
    if npacks == 0:
        total = 0
    packs = _composition(draw, total, npacks)
    prepack = None
    if npacks >= 2 and draw(st.integers(0, 3)) == 3:
        prepack = draw(st.integers(2, npacks))
    earlier = None
    if draw(st.integers(0, 3)) == 3:
        earlier = {"op": _opspec(draw), "at": draw(st.integers(0, 999))}
    case = {
        "format": fmt, "op": op, "packs": packs, "prepack": prepack,
        "junk": draw(st.booleans()), "earlier": earlier,
        "recovery": draw(st.sampled_from(["commit", "retry"])),
        "nfiles": draw(st.integers(1, 3)),
        "sizes": draw(st.lists(st.sampled_from([30, 300, 4000]), min_size=1,
                               max_size=3)),
    }
    if case == MINIMAL:
        case["mark"] = MINIMAL_MARK
    return case


MINIMAL = {"format": "2a", "op": {"op": "commit"}, "packs": [],
           "prepack": None, "junk": False, "earlier": None,
           "recovery": "commit", "nfiles": 1, "sizes": [30]}


@st.composite
def scenario2(draw, tier):
    """Operations and pre-state variants the first kind does not draw: the
    commit of a resumed (suspended) write group of 1-2 packs, pack() with a
    hint, obsolete_packs/ missing or already holding a live pack's files."""
    fmt = draw(st.sampled_from(FORMATS))
    npacks = draw(st.integers(2, 6 if tier == "quick" else 12))
    packs = [draw(st.integers(1, 3)) for _ in range(npacks)]
    k = draw(st.sampled_from(["resume-commit", "resume-commit", "pack-hint",
                              "pack-clean", "commit"]))
    if k == "resume-commit":
        # (the simplest example - the one every shard starts with - has two
        # suspended packs)
        op = {"op": k, "chunks": draw(st.sampled_from(
            [[1, 1], [2, 1], [1], [1, 2], [1, 1, 1]]))}
    elif k == "pack-hint":
        # at least two DIFFERENT packs: re-packing a single knit pack
        # reproduces it bit for bit (same content-hash name) and is refused
        # with "Pack ... already exists"
        op = {"op": k, "hint": draw(st.lists(st.integers(0, npacks - 1),
                                             min_size=2, max_size=4,
                                             unique=True))}
    else:
        op = {"op": k}
    return {"format": fmt, "op": op, "packs": packs, "prepack": None,
            "junk": draw(st.booleans()), "earlier": None,
            "obsolete_dir": draw(st.sampled_from([None, "missing", "copy"])),
            "recovery": "commit", "nfiles": draw(st.integers(1, 2)),
            "sizes": [draw(st.sampled_from([30, 300]))]}


def kinds(tier):
    return [
        Kind("crash-enumeration", run, strategy=scenario(tier),
             examples={"quick": 24, "thorough": 250},
             shrink_s={"quick": 60, "thorough": 600}),
        Kind("resumed-groups-hints-obsolete-dir", run,
             strategy=scenario2(tier),
             examples={"quick": 16, "thorough": 100},
             shrink_s={"quick": 60, "thorough": 600}),
    ]
