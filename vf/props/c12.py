"""C12 - tree-changing commands never silently discard uncommitted work.

A working tree with a committed base, user edits (model ops + late edits on
whatever is on disk + unknown files), optionally an earlier forced merge (so
merge-modified hashes, helper files and conflicts exist), then ONE command:
revert / remove / merge / pull / update / switch / uncommit.  Oracle: the
multiset of precious file contents (DESIGN C12) is still on disk below the tree
root afterwards unless the options asked to discard it, or - for merge-like
commands - the clean three-way merge of it is.
"""

import collections
import os

from hypothesis import strategies as st

from vf.api import Kind, check, ok, rejected, trivial
from vf.lib import bz, treemodel as tm

PROPERTY = "C12"
LEVEL = "exploration"
TECHNIQUE = ("Hypothesis-generated tree states and command options on real "
             "working trees; before/after invariant on the multiset of file "
             "contents on disk, merge3 as the reference for clean merges")
RULE = ("Base tree of 3-8 entries (files with 4-7 distinct lines, directories, "
        "symlinks, exec bits, odd names) committed; user script of 1-5 model "
        "ops (modify by editing first/last/middle line or rewriting, add, "
        "rename/move, delete, chmod); optionally (revert/remove/uncommit) a "
        "forced merge of a sibling branch on top of the dirty tree, which "
        "leaves merge-modified hashes, helper files and conflicts; 0-3 late "
        "edits of regular files found on disk (incl. conflicted ones) and 0-3 "
        "unknown files; then one command: revert(paths?, backups), "
        "remove(paths, keep_files=False, force), merge_from_branch(force), "
        "pull, update (lightweight checkout and bound branch), switch, "
        "uncommit - incoming revisions are 1-5 model ops on the same base, so "
        "they overlap the user's files by edit / delete / rename / replace; "
        "remove-twice: 1-3 files with kept content (preferably with URL-ish "
        "names) are removed, re-created as unknown / added files with other "
        "content and removed again, so numbered backups of two rounds must "
        "coexist; revert-old: a second revision is committed and the tree is "
        "reverted to the FIRST one (old_tree), usually after a path swap - a "
        "file whose text differs between the two revisions is moved to a name "
        "that sorts before / after its old path and another user-edited file "
        "(existing or new) is put on that path. One new file in three gets a "
        "URL-ish name (My%20Notes.txt, a%41b, 100%, x y, c#d, q?x, non-ASCII, "
        "...). "
        "Not generated (trusted-base dirstate assertion, DESIGN 4.3): a "
        "non-directory on a path that is a versioned directory in the basis - "
        "model ops that would create one are skipped, unknown-file names "
        "differ from every directory name, and a run-time guard skips (and "
        "labels) any that would still arise. Precious = regular files on disk whose content differs from the basis "
        "text of their file id (or that are added / unknown), whose sha1 is not "
        "the recorded merge-modified hash and that were not created by the "
        "earlier merge. Non-trivial: >= 1 non-empty precious file inside the "
        "command's footprint (selected paths / touched by the incoming "
        "revision / whole tree). Distinct by case hash.")
ASSUMPTIONS = [
    "the merge3 package decides what a clean text merge is",
    "basis texts, file ids and merge_modified() are read through the tree API "
    "before the command (trusted base for the oracle's input)",
    "symlinks only point inside the case's scratch directory",
]
LEVEL_TEXT = ("Sampled tree states x commands on real 2a (and git for revert / "
              "merge) working trees; the invariant is checked on the file "
              "system itself, not through the tree API.")
LEVEL_NOTE = ("Only regular-file contents are precious (symlink targets and "
              "directories are not); content that an earlier merge wrote, "
              "including .THIS helper files, is unprotected by the statement.")
REGISTERED = True
NONTRIVIAL_FLOOR = {"quick": 120, "thorough": 3000}

LINES = ["one\n", "two\n", "three\n", "four\n", "five\n", "six\n", "seven\n"]
# names that need care when they travel through URLs / transports
URLISH = ["My%20Notes.txt", "a%41b", "100%", "50%off", "x y", "c#d", "q?x",
          "ü%C3%BC", "é", "%", "p%2Fq"]


_HELPER_SUFFIXES = (".BASE", ".THIS", ".OTHER")


def _odd(path):
    base = path.rsplit("/", 1)[-1]
    return any(c in base for c in "%#? ") or any(ord(c) > 127 for c in base)


def _urlish_name(draw, model, parent, op):
    """Now and then give a new file one of the URL-ish names."""
    if op[4] != "file" or draw(st.integers(0, 2)) != 0:
        return
    used = tm.names_in(model, parent)
    free = [n for n in URLISH if n not in used]
    if free:
        op[3] = draw(st.sampled_from(free))


# ---------------------------------------------------------------- generation

def _ids(prefix):
    return tm.IdSource(prefix)


def _edit_text(draw, text, tag):
    ls = text.splitlines(True)
    how = draw(st.sampled_from(["top", "bottom", "middle", "rewrite",
                                "append", "truncate"]))
    n = draw(st.integers(0, 9))
    new = "%s %s %d\n" % (tag, how, n)
    if not ls or how == "rewrite":
        return new + "body of %s\n" % tag
    if how == "top":
        ls[0] = new
    elif how == "bottom":
        ls[-1] = new
    elif how == "middle":
        ls[len(ls) // 2] = new
    elif how == "append":
        ls.append(new)
    else:
        ls = ls[:max(1, len(ls) - 2)] + [new]
    return "".join(ls)


def _draw_script(draw, model, ids, tag, n_min, n_max, symlinks, flat=False):
    """Ops applicable to `model` (mutated). Modifications are line edits so
    that clean three-way merges are frequent."""
    ops = []
    # a non-directory on a path that is a directory in the basis makes the
    # dirstate comparison (trusted base) fail with an internal AssertionError
    # (DESIGN section 4.3): never generated
    was_dir = {tm.path_of(model, f) for f in tm.dirs(model) if f != tm.ROOT_ID}
    for _ in range(draw(st.integers(n_min, n_max))):
        op = tm.draw_op(draw, model, ids, symlinks=symlinks, max_depth=2,
                        kinds=["add", "modify", "modify", "modify", "rename",
                               "delete", "chmod"] + ([] if flat else
                                                     ["add_dir"]))
        if op is None:
            continue
        if op[0] in ("add", "rename"):
            kind = op[4] if op[0] == "add" else model[op[1]]["kind"]
            parent, name = (op[2], op[3])
            if kind == "directory" and name.endswith(_HELPER_SUFFIXES):
                continue
            pp = tm.path_of(model, parent)
            target = (pp + "/" + name) if pp else name
            if kind != "directory" and target in was_dir:
                continue
        if flat and op[0] == "add" and op[4] == "directory":
            continue      # git does not version (empty) directories
        if op[0] == "modify":
            op[2] = _edit_text(draw, model[op[1]]["content"], tag)
        elif op[0] == "add" and op[4] == "file":
            op[5] = "%s new file %s\n" % (tag, op[1]) + (op[5] or "")
            _urlish_name(draw, model, op[2], op)
        tm.apply_op(model, op)
        ops.append(op)
        if op[0] == "rename" and model[op[1]]["kind"] == "file" and \
                draw(st.booleans()):
            # renamed-and-modified
            op2 = ["modify", op[1],
                   _edit_text(draw, model[op[1]]["content"], tag)]
            tm.apply_op(model, op2)
            ops.append(op2)
    return ops


def _base(draw, ids, symlinks, flat=False):
    m = tm.new_model()
    ops = []
    n = draw(st.integers(3, 8))
    for i in range(n):
        op = tm.draw_op(draw, m, ids, symlinks=symlinks, max_depth=2,
                        kinds=["add", "add", "add"] + ([] if flat else
                                                       ["add_dir"]))
        if op is None:
            continue
        if flat and op[4] == "directory":
            continue
        if op[4] == "directory" and op[3].endswith(_HELPER_SUFFIXES):
            # a merge conflict on <x> writes the helper file <x>.BASE over it:
            # a versioned directory replaced by a file (trusted-base assertion)
            continue
        if op[4] == "file":
            k = draw(st.integers(4, 7))
            op[5] = "".join("%s %s" % (op[1], ln) for ln in LINES[:k])
            _urlish_name(draw, m, op[2], op)
        if op[4] == "symlink":
            op[5] = draw(st.sampled_from(["a", "b/c", "nowhere"]))
        tm.apply_op(m, op)
        ops.append(op)
    if not any(o[4] == "file" for o in ops):
        op = ["add", ids.next(), tm.ROOT_ID, "zfile", "file",
              "".join("z %s" % ln for ln in LINES[:5]), False]
        tm.apply_op(m, op)
        ops.append(op)
    return m, ops


CMDS_BZR = ["revert", "revert", "remove", "remove", "merge", "merge", "pull",
            "update", "update-bound", "switch", "uncommit", "merge-noforce",
            "remove-twice", "remove-twice", "revert-old", "revert-old"]
CMDS_GIT = ["revert", "revert", "merge"]


def _mid_script(draw, model, symlinks):
    """The second committed revision: at least one text change."""
    ops = _draw_script(draw, model, _ids("m"), "MID", 1, 4, symlinks)
    files = sorted(f for f, e in model.items() if e["kind"] == "file")
    if files and not any(o[0] == "modify" for o in ops):
        f = draw(st.sampled_from(files))
        op = ["modify", f, _edit_text(draw, model[f]["content"], "MID")]
        tm.apply_op(model, op)
        ops.append(op)
    return ops


def _path_swap(draw, old_model, model):
    """User ops (applied to `model`): a file A whose text differs between the
    revert target and the basis is moved away, and another user-edited file B
    (an existing one, or a new one) is put on A's path. A's new name sorts
    before or after that path."""
    cands = sorted(f for f, e in model.items()
                   if e["kind"] == "file" and f in old_model
                   and old_model[f]["kind"] == "file"
                   and old_model[f]["content"] != e["content"])
    if not cands or draw(st.integers(0, 4)) == 0:
        return []
    a = draw(st.sampled_from(cands))
    parent, pname = model[a]["parent"], model[a]["name"]
    used = tm.names_in(model, parent)
    newname = draw(st.sampled_from(["0" + pname, "zz" + pname, "!moved",
                                    "~moved"]))
    if newname in used:
        return []
    ops = [["rename", a, parent, newname]]
    others = sorted(f for f, e in model.items()
                    if e["kind"] == "file" and f != a)
    if others and draw(st.booleans()):
        b = draw(st.sampled_from(others))
        ops.append(["rename", b, parent, pname])
        ops.append(["modify", b, _edit_text(draw, model[b]["content"],
                                            "LOCAL")])
    else:
        ops.append(["add", "lswap-id", parent, pname, "file",
                    "LOCAL file put on a vacated path\nline two\n",
                    draw(st.booleans())])
    if draw(st.booleans()):
        ops.append(["modify", a, _edit_text(draw, model[a]["content"],
                                            "LOCAL")])
    for op in ops:
        tm.apply_op(model, op)
    return ops


@st.composite
def gen_case(draw, fmt="2a", rm_unknown=False):
    git = fmt == "git"
    symlinks = not git and draw(st.booleans())
    ids = _ids("f")
    base_model, base = _base(draw, ids, symlinks, flat=git)
    cmd = draw(st.sampled_from(CMDS_GIT if git else CMDS_BZR))
    if rm_unknown:
        cmd = "remove-twice"
    local_model = tm.clone(base_model)
    case = {"fmt": fmt, "base": base, "cmd": cmd}
    pre = []
    if cmd == "revert-old":
        # a second committed revision; the command reverts to the first one
        case["mid"] = _mid_script(draw, local_model, symlinks)
        pre = _path_swap(draw, base_model, local_model)
    local = pre + _draw_script(draw, local_model, _ids("l"), "LOCAL",
                               0 if pre else 1, 3 if pre else 5, symlinks,
                               flat=git)
    case["local"] = local
    if cmd in ("revert", "remove", "uncommit") and not git and \
            draw(st.integers(0, 2)) == 0:
        pm = tm.clone(base_model)
        case["prior"] = _draw_script(draw, pm, _ids("p"), "PRIOR", 1, 4,
                                     symlinks)
    if cmd in ("merge", "merge-noforce", "pull", "update", "update-bound",
               "switch"):
        im = tm.clone(base_model)
        case["incoming"] = _draw_script(draw, im, _ids("i"), "INCOMING", 1, 5,
                                        symlinks, flat=git)
    case["late"] = [[draw(st.integers(0, 30)),
                     draw(st.sampled_from(["top", "bottom", "append",
                                           "rewrite"])),
                     draw(st.integers(0, 9))]
                    for _ in range(draw(st.integers(0, 3)))]
    case["unknown"] = [[draw(st.integers(0, 30)),
                        draw(st.sampled_from(["u1", "u2.txt", "y~", "new",
                                              "ü", "a.THIS", "<backup>",
                                              "<backup>", "My%20Notes.txt",
                                              "a%41b", "100%", "c#d", "q?x"])),
                        "unknown %d\n" % draw(st.integers(0, 99))]
                       for _ in range(draw(st.integers(0, 3)))]
    if cmd == "remove-twice":
        # an *unversioned* file on a path whose removal is pending is deleted
        # without a backup (open finding): re-created files are re-added
        # here, the unversioned variant has its own kind
        case["twice"] = [[draw(st.sampled_from(["odd", "odd", "any"])),
                          draw(st.integers(0, 30)),
                          "unknown" if rm_unknown else "added"]
                         for _ in range(draw(st.integers(1, 3)))]
    if cmd in ("revert", "remove", "revert-old"):
        case["select"] = [[draw(st.sampled_from(["cur", "cur", "old", "file",
                                                 "unknown", "dir"])),
                           draw(st.integers(0, 30))]
                          for _ in range(draw(st.integers(1, 3)))]
        case["shadow"] = draw(st.integers(0, 2)) == 0
        if cmd == "revert-old":
            case["all"] = draw(st.integers(0, 3)) != 0
            case["backups"] = True
        elif cmd == "revert":
            case["all"] = draw(st.integers(0, 2)) == 0
            case["backups"] = draw(st.sampled_from([True, True, False]))
        else:
            case["force"] = draw(st.sampled_from([False, False, True]))
    return case


# ---------------------------------------------------------------- execution

def _files_on_disk(root):
    snap = bz.snapshot_fs(root)
    return {p: v[1].encode("latin-1") for p, v in snap.items()
            if v[0] == "file"}, snap


def _multiset(files):
    return collections.Counter(files.values())


def _inside(d, p):
    return d == p or d == "" or p.startswith(d + "/")


def _commit(wt, fmt, rev_id):
    if fmt == "git":
        return wt.commit("m", timestamp=bz.T0, timezone=0,
                         committer=bz.COMMITTER, allow_pointless=True)
    return bz.commit(wt, rev_id=rev_id)


EXCLUDED = "+file-on-basis-directory-path-not-created"


def _apply_late(root, case, created_by_merge, basis_dirs=(), skipped=None):
    files, _ = _files_on_disk(root)
    # helper files of the earlier merge are the merge's, not the user's
    names = sorted(p for p in files if p not in created_by_merge)
    for k, how, n in case["late"]:
        if not names:
            break
        p = names[k % len(names)]
        ap = os.path.join(root, p)
        with open(ap, "rb") as f:
            ls = f.read().decode("latin-1").splitlines(True)
        new = "LATE %s %d\n" % (how, n)
        if how == "rewrite" or not ls:
            ls = [new, "late body\n"]
        elif how == "top":
            ls[0] = new
        elif how == "bottom":
            ls[-1] = new
        else:
            ls.append(new)
        mode = os.lstat(ap).st_mode & 0o777
        with open(ap, "wb") as f:
            f.write("".join(ls).encode("latin-1"))
        os.chmod(ap, mode)
    dirs = [""] + sorted(
        os.path.relpath(os.path.join(d, x), root)
        for d, ds, _ in os.walk(root) for x in ds
        if not os.path.islink(os.path.join(d, x))
        and ".bzr" not in os.path.join(d, x).split(os.sep)
        and ".git" not in os.path.join(d, x).split(os.sep))
    made = []
    for k, name, content in case["unknown"]:
        d = dirs[k % len(dirs)]
        p = (d + "/" + name) if d else name
        if name == "<backup>":
            # an unknown file that sits on the first backup name of a file
            if not names:
                continue
            p = names[k % len(names)] + ".~1~"
        ap = os.path.join(root, p)
        if os.path.lexists(ap):
            continue
        if p in basis_dirs:
            # A non-directory on a path that is a versioned directory in the
            # basis (moved away or deleted in the tree) makes the dirstate's
            # iter_changes(specific_files=...) - bzrformats, trusted base -
            # fail with an internal AssertionError (lstat ... NotADirectory);
            # DESIGN section 4.3: not generated, counted through the label.
            if skipped is not None:
                skipped.append(p)
            continue
        with open(ap, "wb") as f:
            f.write(content.encode("utf-8"))
        made.append(p)
    return made


def _basis_texts(wt):
    """{file_id-or-path: bytes} of the basis tree (bzr: by id, git: by path)"""
    out = {}
    basis = wt.basis_tree()
    with basis.lock_read():
        ids = wt.supports_setting_file_ids()
        for path, ie in basis.iter_entries_by_dir():
            if ie.kind == "file":
                key = ie.file_id if ids else path
                out[key] = basis.get_file_text(path)
    return out


def _precious(wt, root, created_by_merge):
    """-> list of dicts(path, content, versioned, key)"""
    files, _ = _files_on_disk(root)
    out = []
    with wt.lock_read():
        btexts = _basis_texts(wt)
        mm = wt.merge_modified() if hasattr(wt, "merge_modified") else {}
        ids = wt.supports_setting_file_ids()
        # resolve() documents that it removes <path>.THIS/.BASE/.OTHER of the
        # conflicts it resolves: those names are not the user's
        helpers = set()
        for c in wt.conflicts():
            for sfx in (".THIS", ".BASE", ".OTHER"):
                helpers.add(c.path + sfx)
        basis_contents = set(btexts.values())
        for p, c in sorted(files.items()):
            versioned = wt.is_versioned(p)
            key = None
            if not ids and versioned and c in basis_contents:
                # git: an unmodified file under a new name is an (inferred)
                # rename, not user-edited content
                continue
            if versioned:
                key = wt.path2id(p) if ids else p
                if btexts.get(key) == c:
                    continue
                h = mm.get(p)
                if h is not None and bz.sha1(c).encode("ascii") == h:
                    continue
            else:
                if created_by_merge.get(p) == c or p in helpers:
                    continue
            out.append({"path": p, "content": c, "versioned": versioned,
                        "key": key, "base": btexts.get(key)})
    return out


def _spec_paths(case, wt, root, base_model, local_model, unknown_made):
    """Translate the selection specs to paths (deterministic on the state)."""
    cur = sorted(p for p in tm.paths(local_model) if p)
    old = sorted(p for p in tm.paths(base_model) if p)
    files, snap = _files_on_disk(root)
    dirs = sorted(p for p, v in snap.items() if v[0] == "directory")
    out = []
    for kind, k in case["select"]:
        pool = {"cur": cur, "old": old, "file": sorted(files),
                "unknown": unknown_made, "dir": dirs}[kind]
        if pool:
            p = pool[k % len(pool)]
            if p not in out:
                out.append(p)
    return out


def _open(root):
    from breezy import workingtree
    return workingtree.WorkingTree.open(root)


def _refusals():
    from breezy import errors
    return (errors.UncommittedChanges,)


def run(case, env):
    import merge3
    from breezy import errors, switch as _switch, uncommit as _uncommit
    from breezy import workingtree as _wt
    fmt = case["fmt"]
    cmd = case["cmd"]
    top = env.newdir("c")
    root = os.path.join(top, "t")
    base_model = tm.new_model()

    # --- base revision, in the layout the command needs
    if cmd in ("update", "switch"):
        b0 = bz.init_tree(os.path.join(top, "b"), fmt)
        bz.apply_ops_wt(b0, base_model, case["base"])
        bz.commit(b0, rev_id="base")
        b0.branch.create_checkout(root, lightweight=True)
        main_tree = b0
    elif cmd == "update-bound":
        b0 = bz.init_tree(os.path.join(top, "b"), fmt)
        bz.apply_ops_wt(b0, base_model, case["base"])
        bz.commit(b0, rev_id="base")
        b0.branch.create_checkout(root, lightweight=False)
        main_tree = b0
    else:
        wt0 = bz.init_tree(root, fmt)
        bz.apply_ops_wt(wt0, base_model, case["base"])
        _commit(wt0, fmt, "base")
        main_tree = None
    first_model = base_model
    if "mid" in case:
        # a second revision becomes the basis; `base_model` names the basis
        base_model = tm.clone(first_model)
        bz.age_files(root)
        bz.apply_ops_wt(wt0, base_model, case["mid"])
        _commit(wt0, fmt, "mid")
    bz.age_files(root)
    wt = _open(root)

    # --- incoming revision
    incoming_model = None
    other = None
    if "incoming" in case:
        incoming_model = tm.clone(base_model)
        if cmd in ("update", "update-bound"):
            other = main_tree
        elif cmd == "switch":
            other = main_tree.controldir.sprout(
                os.path.join(top, "b2")).open_workingtree()
        else:
            other = wt.controldir.sprout(
                os.path.join(top, "o")).open_workingtree()
        bz.apply_ops_wt(other, incoming_model, case["incoming"])
        _commit(other, fmt, "incoming")

    # --- the user's work
    local_model = tm.clone(base_model)
    bz.apply_ops_wt(wt, local_model, case["local"])
    created_by_merge = {}
    if "prior" in case:
        pm = tm.clone(base_model)
        ptree = wt.controldir.sprout(os.path.join(top, "p")).open_workingtree()
        bz.apply_ops_wt(ptree, pm, case["prior"])
        bz.commit(ptree, rev_id="prior")
        before_merge, _ = _files_on_disk(root)
        wt = _open(root)
        try:
            wt.merge_from_branch(ptree.branch, force=True)
        except _wt.PointlessMerge:
            pass
        after_merge, _ = _files_on_disk(root)
        created_by_merge = {p: c for p, c in after_merge.items()
                            if p not in before_merge}
    basis_dirs = {tm.path_of(base_model, f) for f in tm.dirs(base_model)
                  if f != tm.ROOT_ID}
    skipped = []
    unknown_made = _apply_late(root, case, created_by_merge, basis_dirs,
                               skipped)
    if case.get("shadow") and case.get("select"):
        # unknown files sitting on the first backup name of the selected paths
        wt = _open(root)
        sel0 = _spec_paths(case, wt, root, base_model, local_model,
                           unknown_made)
        for i, p in enumerate(sel0):
            ap = os.path.join(root, p + ".~1~")
            if os.path.lexists(os.path.join(root, p)) and \
                    not os.path.lexists(ap):
                with open(ap, "wb") as f:
                    f.write(b"shadow of %d\n" % i)
    bz.age_files(root)

    wt = _open(root)
    precious = _precious(wt, root, created_by_merge)
    before_files, before_snap = _files_on_disk(root)

    # --- the command
    discard_ok = set()          # indexes of precious files that may vanish
    footprint = set()
    label = cmd
    refused = None
    def do_remove(tree, paths, force):
        try:
            tree.remove(paths, keep_files=False, force=force)
        except OSError as e:
            link_to_dir = [p for p, v in before_snap.items()
                           if v[0] == "symlink"
                           and any(_inside(s, p) for s in paths)
                           and (_dir_or_loop(os.path.join(root, p)) or
                                _is_loop(os.path.join(root, p)))]
            if link_to_dir:
                check(False, "C12/remove-follows-versioned-symlink-and-fails",
                      {"case": case, "paths": paths,
                                "links": link_to_dir,
                                "error": "%s: %s" % (type(e).__name__, e)})
            raise

    if cmd in ("revert", "revert-old"):
        paths = None if case["all"] else _spec_paths(
            case, wt, root, base_model, local_model, unknown_made)
        if paths is not None and not paths:
            return trivial()
        for i, pr in enumerate(precious):
            if not pr["versioned"]:
                continue
            oldp = None
            if pr["key"] is not None and fmt != "git":
                for fid, e in base_model.items():
                    if fid.encode("utf-8") == pr["key"]:
                        oldp = tm.path_of(base_model, fid)
            sel = paths is None or any(
                _inside(s, pr["path"]) or (oldp and _inside(s, oldp))
                for s in paths)
            if fmt == "git" and not case["backups"]:
                # renames are inferred from content: a selected basis path
                # may pull in any similar file
                sel = True
            if sel:
                footprint.add(i)
                # --no-backup discards the *reverted* text of a file that is
                # restored; an added file is only unversioned by revert, it
                # has nothing to be restored to and must stay
                # (git infers renames from content, so "added" is not
                # decidable from the path there)
                if not case["backups"] and (pr["base"] is not None or
                                            fmt == "git"):
                    discard_ok.add(i)
        old_tree = None
        if cmd == "revert-old":
            old_tree = wt.branch.repository.revision_tree(b"base")
        try:
            wt.revert(paths, old_tree=old_tree, backups=case["backups"])
        except errors.PathsNotVersionedError:
            refused = "PathsNotVersionedError"
        label = "%s%s%s" % (cmd, "" if paths is None else "-paths",
                            "" if case["backups"] else "-no-backups")
        if cmd == "revert-old" and any(o[0] == "rename" for o in
                                       case["local"][:2]):
            label += "+path-swap"
    elif cmd == "remove":
        paths = _spec_paths(case, wt, root, base_model, local_model,
                            unknown_made)
        paths = [p for p in paths if os.path.lexists(os.path.join(root, p))]
        if not paths:
            return trivial()
        for i, pr in enumerate(precious):
            if any(_inside(s, pr["path"]) for s in paths):
                footprint.add(i)
                if case["force"]:
                    discard_ok.add(i)
        label = "remove-force" if case["force"] else "remove"
        if any(_odd(p) for p in paths):
            label += ":urlish-name"
        do_remove(wt, paths, case["force"])
    elif cmd == "remove-twice":
        # the same paths are removed (kept content -> numbered backups),
        # re-created with other user content and removed again: the backups
        # of both rounds must exist with their own bytes
        cands = [pr for pr in precious if pr["content"]]
        odd = [pr for pr in cands if _odd(pr["path"])]
        picks = []
        for pref, k, how in case["twice"]:
            pool = odd if (pref == "odd" and odd) else cands
            if pool:
                pth = pool[k % len(pool)]["path"]
                if pth not in [x[0] for x in picks]:
                    picks.append([pth, how])
        if not picks:
            return trivial()
        paths = [x[0] for x in picks]
        for i, pr in enumerate(precious):
            if pr["path"] in paths:
                footprint.add(i)
        label = "remove-twice" + (":urlish-name" if any(_odd(p) for p in paths)
                                  else "")
        do_remove(wt, paths, False)
        again = []
        for i, (pth, how) in enumerate(picks):
            ap = os.path.join(root, pth)
            if os.path.lexists(ap) or not os.path.isdir(os.path.dirname(ap)):
                continue
            content = ("ROUND TWO %d of %s\n" % (i, pth)).encode("utf-8")
            with open(ap, "wb") as f:
                f.write(content)
            again.append(pth)
            precious.append({"path": pth, "content": content,
                             "versioned": how == "added", "key": None,
                             "base": None, "rm_unknown": how == "unknown"})
            footprint.add(len(precious) - 1)
        wt = _open(root)
        added = [pth for pth, how in picks if how == "added" and pth in again]
        if added:
            wt.add(added)
        if again:
            bz.age_files(root)
            do_remove(_open(root), again, False)
    elif cmd == "uncommit":
        _uncommit.uncommit(wt.branch, tree=wt)
        after_files, after_snap = _files_on_disk(root)
        check(after_snap == before_snap, "C12/uncommit-changes-working-files",
              {"case": case, "diff": _snapdiff(before_snap, after_snap)})
        return ok("uncommit") if any(p["content"] for p in precious) \
            else trivial()
    else:
        touched = _touched(base_model, incoming_model)
        for i, pr in enumerate(precious):
            if pr["key"] is not None and pr["key"] in touched or \
                    pr["path"] in touched:
                footprint.add(i)
        try:
            if cmd == "merge":
                wt.merge_from_branch(other.branch, force=True)
            elif cmd == "merge-noforce":
                wt.merge_from_branch(other.branch, force=False)
            elif cmd == "pull":
                wt.pull(other.branch)
            elif cmd in ("update", "update-bound"):
                wt.update()
            elif cmd == "switch":
                _switch.switch(wt.controldir, other.branch)
        except _refusals() as e:
            refused = type(e).__name__
        except _wt.PointlessMerge:
            refused = "PointlessMerge"
        except Exception as e:
            # not swallowed: an internal error of the command is reported by
            # the runner under its own signature, unless it also lost content
            after_files, _ = _files_on_disk(root)
            have = _multiset(after_files)
            for pr in precious:
                if have.get(pr["content"], 0) < 1:
                    check(False, "C12/%s-fails-and-loses-content" % cmd,
                          {"case": case, "path": pr["path"],
                           "error": "%s: %s" % (type(e).__name__,
                                                str(e)[:200])})
            raise

    after_files, after_snap = _files_on_disk(root)
    if refused is not None:
        check(after_snap == before_snap, "C12/refused-command-changed-files",
              {"case": case, "refused": refused,
               "diff": _snapdiff(before_snap, after_snap)})
        return rejected(refused, label=None)

    # --- the invariant
    _BASES.clear()
    for fid, e in base_model.items():
        if e["kind"] == "file":
            _BASES[fid] = e["content"].encode("latin-1")
    have = _multiset(after_files)
    need = collections.Counter()
    items = collections.defaultdict(list)
    for i, pr in enumerate(precious):
        if i in discard_ok:
            continue
        need[pr["content"]] += 1
        items[pr["content"]].append(pr)
    for content, n in need.items():
        deficit = n - have.get(content, 0)
        if deficit <= 0:
            continue
        explained = 0
        if incoming_model is not None:
            for pr in items[content]:
                if _clean_merge_present(merge3, pr, incoming_model, have, fmt):
                    explained += 1
        if explained >= deficit:
            continue
        lost = items[content][0]
        kind = "unknown-file" if not lost["versioned"] else (
            "added-file" if lost["base"] is None else "modified-file")
        sig = "C12/%s-loses-%s-content" % (
            label.replace("merge-noforce", "merge"), kind)
        basis_paths = set(tm.paths(base_model))
        if cmd in ("remove", "remove-twice") and not case.get("force") and (
                lost.get("rm_unknown") or (not lost["versioned"] and
                                           lost["path"] in basis_paths)):
            # open finding: the path is versioned in the basis (its entry was
            # removed or moved away), the file on it is unversioned
            sig = ("C12/remove-deletes-unversioned-file-on-path-whose-removal-"
                   "is-pending")
        if fmt == "git" and incoming_model is not None:
            in_paths = set(tm.paths(incoming_model))
            new_in = in_paths - basis_paths
            # (an unversioned file also counts when the incoming revision
            # still has a file on that path and the local tree removed its
            # own: the incoming file is written over the unversioned one)
            if lost["path"] in new_in or (not lost["versioned"] and
                                          lost["path"] in in_paths):
                # open findings (git trees only; bzr moves the local file to
                # <path>.moved)
                sig = ("C12/git-merge-overwrites-unversioned-file-with-"
                       "incoming-file" if not lost["versioned"] else
                       "C12/git-merge-overwrites-uncommitted-renamed-or-added-"
                       "file-with-incoming-file-at-same-path")
        check(False, sig,
            {"case": case, "path": lost["path"],
             "content": content.decode("latin-1"),
             "copies-before": n, "copies-after": have.get(content, 0),
             "after": sorted(after_files)})
    if any(precious[i]["content"] for i in footprint):
        return ok(label + ("+prior-merge" if "prior" in case else "") +
                  (EXCLUDED if skipped else ""))
    if skipped:
        return ok("trivial" + EXCLUDED)
    return trivial()


def _dir_or_loop(ap):
    import errno
    try:
        return os.path.isdir(ap) and (os.stat(ap) is not None)
    except OSError as e:
        return e.errno == errno.ELOOP
    finally:
        pass


def _is_loop(ap):
    import errno
    try:
        os.stat(ap)
    except OSError as e:
        return e.errno == errno.ELOOP
    return False


def _snapdiff(a, b):
    out = []
    for p in sorted(set(a) | set(b)):
        if a.get(p) != b.get(p):
            out.append([p, a.get(p), b.get(p)])
    return out[:10]


def _touched(base_model, incoming_model):
    """file ids (bytes) and paths the incoming revision changes."""
    out = set()
    bs = tm.snapshot(base_model)
    by_id_b = {v[3]: (p, v) for p, v in bs.items()}
    by_id_i = {v[3]: (p, v) for p, v in tm.snapshot(incoming_model).items()}
    for fid in set(by_id_b) | set(by_id_i):
        if by_id_b.get(fid) != by_id_i.get(fid):
            out.add(fid.encode("utf-8"))
            for side in (by_id_b, by_id_i):
                if fid in side:
                    out.add(side[fid][0])
    return out


def _clean_merge_present(merge3, pr, incoming_model, have, fmt):
    if fmt == "git":
        # no file ids and inferred renames: any (base, incoming) pair of one
        # file may explain the bytes found on disk
        for fid, e in incoming_model.items():
            b = _BASES.get(fid)
            if b is None or e["kind"] != "file":
                continue
            if _merged_present(merge3, b, pr["content"],
                               e["content"].encode("latin-1"), have):
                return True
        return False
    if pr["base"] is None:
        return False
    other = None
    if fmt != "git" and pr["key"] is not None:
        fid = pr["key"].decode("utf-8")
        e = incoming_model.get(fid)
        if e is not None and e["kind"] == "file":
            other = e["content"].encode("latin-1")
    else:
        fidmap = tm.paths(incoming_model)
        fid = fidmap.get(pr["path"])
        if fid is not None and incoming_model[fid]["kind"] == "file":
            other = incoming_model[fid]["content"].encode("latin-1")
    if other is None:
        return False
    return _merged_present(merge3, pr["base"], pr["content"], other, have)


_BASES = {}


def _merged_present(merge3, base, this, other, have):
    m3 = merge3.Merge3(base.splitlines(True), this.splitlines(True),
                       other.splitlines(True))
    if any(r[0] == "conflict" for r in m3.merge_regions()):
        return False
    merged = b"".join(m3.merge_lines())
    return have.get(merged, 0) >= 1


def kinds(tier):
    return [
        Kind("bzr", run, strategy=gen_case("2a"),
             examples={"quick": 480, "thorough": 13000}),
        Kind("git", run, strategy=gen_case("git"),
             examples={"quick": 80, "thorough": 2000}),
        Kind("remove-unversioned-file-on-removed-path", run,
             strategy=gen_case("2a", rm_unknown=True),
             examples={"quick": 24, "thorough": 300}),
    ]
