"""C49 - configuration values resolve by location and round-trip through files.

Round trip: Stack.set -> save -> a new store on the same file -> Stack.get
must return the value unchanged (or the store must refuse the value).
Location: an independent reference of the documented resolution rule
(component-wise glob match, more components = more specific, ignore_parents
barrier, appendpath / {relpath} / {basename} from the unmatched remainder).
"""

import os

from hypothesis import strategies as st

from vf.api import Kind, check, ok, rejected, trivial, violation
from vf.lib import c48_ref as G

PROPERTY = "C49"
LEVEL = "exploration"
TECHNIQUE = ("Hypothesis over a value grammar and over section-name/location "
             "sets; round-trip oracle + independent reference resolver with a "
             "validity predicate for ties")
RULE = ("Values: text of 0-12 characters over {a b e-acute non-BMP space tab \" ' "
        ", # = newline { } % \\ [ ] : ;}, 1-3 options per file, default or "
        "named section, through TransportIniFileStore and (smaller budget) "
        "GlobalStack / LocationStack / BranchStack, re-read by a store object "
        "that never saw the value; also with a later session that loads the "
        "file, sets another option and saves before the read. Locations: 0-6 sections whose names are "
        "absolute paths or file:// URLs of 0-3 components over {a, ab, b, *, "
        "a*, ?, [ab], [!a]}, optional no-name section, options opt / "
        "opt:policy=appendpath / ignore_parents, values with {relpath} / "
        "{basename}; location = path or file:// URL of 1-4 components; "
        "resolved through Stack([LocationMatcher]) on a saved file and through "
        "LocationStack on locations.conf. Excluded by construction and "
        "witnessed by their own kinds (open findings): values with matching "
        "outer quotes that contain both quote kinds, single-line values with "
        "both quote kinds in a file that is loaded and saved again, values "
        "containing a line break other than LF, the norecurse policy. Non-trivial: value "
        "containing a quote, comma, '#', newline or outer blank; location with "
        ">= 2 matching sections of different depth, an ignore_parents barrier "
        "or a policy/expansion applied to a non-empty remainder. Distinct by "
        "case hash.")
ASSUMPTIONS = [
    "option names are not registered options (no conversion on read)",
    "values are read with expand=False in the round trip ({x} expansion is a "
    "separate feature)",
    "a section that sets ignore_parents is a barrier that is itself not used "
    "(behaviour inherited from LocationConfig, DESIGN FA note)",
    "ties between equally deep sections may be resolved either way",
]
LEVEL_TEXT = ("Sampled values and section sets; the reference resolver is "
              "written from the configuration help topic and uses its own glob "
              "matcher; no exhaustive claim.")
LEVEL_NOTE = ("Trusts configobj for what a syntactically valid file is; "
              "segment parameters (,branch=) and StartingPathMatcher (unused "
              "outside tests, string-prefix semantics by design) are not "
              "covered.")
REGISTERED = True
NONTRIVIAL_FLOOR = {"quick": 1000, "thorough": 20000}

QUOTES = "\"'"
# every character str.splitlines() treats as a line boundary, except LF
LINE_BREAKS = "\r\x0b\x0c\x1c\x1d\x1e\x85\u2028\u2029"
_VAL_ALPHA = list("aab é\U0001F600  \t\"\"''',,##==\n\n{}%\\[]:;")


def in_quote_class(v):
    """Residual of F22: same quote character at both ends, both kinds inside,
    single line, no '#' (with a '#' configobj adds a second triple-quote
    layer when it writes the file and the value survives)."""
    return (len(v) >= 2 and v[0] == v[-1] and v[0] in QUOTES and
            '"' in v and "'" in v and "\n" not in v and "#" not in v)


def in_both_quotes_class(v):
    """Single-line value with both quote kinds and no '#': stored with the
    store's own triple quotes only, which configobj strips on load; a later
    load + save of the same file rewrites it bare (open finding)."""
    return '"' in v and "'" in v and "\n" not in v and "#" not in v


def has_line_break(v):
    return any(c in LINE_BREAKS for c in v)


def _values(max_size=12, rewrite_safe=False):
    def fix(v):
        if rewrite_safe and in_both_quotes_class(v):
            v = v.replace('"', "a")     # excluded by construction
        if in_quote_class(v):
            v = v + "a"       # excluded by construction (open finding)
        return v
    return st.text(alphabet=st.sampled_from(_VAL_ALPHA),
                   max_size=max_size).map(fix)


_names = st.sampled_from(["vf_opt", "vf_a", "vf_b.c", "vf_long_option_name",
                          "vf_x1"])
_sections = st.sampled_from([None, None, "DEFAULT", "sec", "/a/b", "a b"])


@st.composite
def gen_values(draw, stacks=False, later=False):
    n = draw(st.integers(1, 3))
    names = draw(st.lists(_names, min_size=n, max_size=n, unique=True))
    case = {}
    if stacks:
        case["stack"] = draw(st.sampled_from(["global", "location", "branch"]))
    else:
        case["section"] = draw(_sections)
    # BranchStack saves after every set(): each later set is a load + save of
    # a file that already holds the earlier values
    safe = later or case.get("stack") == "branch"
    case["opts"] = [[nm, draw(_values(rewrite_safe=safe))] for nm in names]
    if later:
        case["later"] = [["vf_later", draw(_values(max_size=4,
                                                   rewrite_safe=True))]]
    return case


def _config():
    from breezy import config
    return config


def _refusals():
    import configobj
    return (configobj.ConfigObjError,)


def _label_value(vals):
    lab = None
    for v in vals:
        if "\n" in v:
            return "value-with-newline"
        if any(c in v for c in QUOTES):
            lab = "value-with-quote"
        elif lab is None and (any(c in v for c in ",#=") or v != v.strip()):
            lab = "value-with-comma-hash-equals-or-outer-blank"
    return lab


def _roundtrip(case, make_writer, make_reader, where):
    """make_writer() -> (stack, save) ; make_reader() -> stack"""
    stack, save = make_writer()
    opts = case["opts"]
    try:
        for name, v in opts:
            stack.set(name, v)
        save()
    except _refusals() as e:
        return rejected("store-refuses-value:" + type(e).__name__,
                        label=_label_value([v for _, v in opts]))
    if case.get("later"):
        # a later session loads the file, sets something else and saves
        stack2, save2 = make_writer()
        for name, v in case["later"]:
            stack2.set(name, v)
        save2()
        where += "-after-later-save"
    try:
        reader = make_reader()
        gots = [reader.get(name, expand=False) for name, _ in opts]
    except _config().ParseConfigError as e:
        if case.get("later") and any(in_both_quotes_class(v)
                                     for _, v in opts):
            check(False, "C49/both-quote-kinds-value-damaged-by-later-save",
                  {"case": case, "error": str(e)[:300]})
        raise
    for (name, v), got in zip(opts, gots):
        if got != v:
            sig = "C49/%s-value-altered" % where
            if case.get("later") and in_both_quotes_class(v):
                sig = "C49/both-quote-kinds-value-damaged-by-later-save"
            elif in_quote_class(v):
                sig = "C49/matching-outer-quotes-with-both-quote-kinds-stripped"
            elif has_line_break(v):
                sig = "C49/value-with-non-LF-line-break-altered"
            elif "\n" in v:
                sig = "C49/%s-multi-line-value-altered" % where
            elif any(c in v for c in QUOTES):
                sig = "C49/%s-quoted-value-altered" % where
            check(False, sig, {"case": case, "option": name, "set": v,
                               "got": got})
    lab = _label_value([v for _, v in opts])
    return ok(lab) if lab else trivial()


def run_values(case, env):
    from breezy import transport as _t
    config = _config()
    d = env.newdir("c")
    sect = case.get("section")

    def writer():
        store = config.TransportIniFileStore(_t.get_transport(d), "x.conf")
        stack = config.Stack([store.get_sections], store,
                             mutable_section_id=sect)
        return stack, store.save

    def reader():
        store = config.TransportIniFileStore(_t.get_transport(d), "x.conf")
        return config.Stack([config.NameMatcher(store, sect).get_sections],
                            store)
    return _roundtrip(case, writer, reader, "ini-store")


def _forget_shared_stores(save=True):
    """What a new process would see: no cached GlobalStore/LocationStore."""
    import breezy
    state = breezy._global_state
    stores = list(_config()._shared_stores.values())
    if state is not None:
        stores += list(state.config_stores.values())
    for s in stores:
        if save:
            s.save_changes()
        else:
            s.unload()
    if state is not None:
        state.config_stores.clear()
    _config()._shared_stores.clear()


def _clear_user_config():
    from breezy import bedding
    _forget_shared_stores(save=False)
    d = bedding.config_dir()
    for fn in ("breezy.conf", "bazaar.conf", "locations.conf"):
        p = os.path.join(d, fn)
        if os.path.exists(p):
            os.unlink(p)


def teardown_user_config(env):
    _clear_user_config()


def run_value_stacks(case, env):
    config = _config()
    from vf.lib import bz
    which = case["stack"]
    _clear_user_config()
    try:
        if which == "global":
            def writer():
                s = config.GlobalStack()
                return s, s.store.save_changes

            def reader():
                _forget_shared_stores()
                return config.GlobalStack()
        elif which == "location":
            loc = env.newdir("loc")

            def writer():
                s = config.LocationStack(loc)
                return s, s.store.save_changes

            def reader():
                _forget_shared_stores()
                return config.LocationStack(loc)
        else:
            d = env.newdir("br")
            bz.init_branch(d)

            def writer():
                s = bz.open_branch(d).get_config_stack()
                return s, lambda: None     # saved when the branch unlocks

            def reader():
                _forget_shared_stores()
                return bz.open_branch(d).get_config_stack()
        return _roundtrip(case, writer, reader, which + "-stack")
    finally:
        _clear_user_config()


# ---------------------------------------------------------------- findings

@st.composite
def gen_quote_class(draw):
    q = draw(st.sampled_from(QUOTES))
    other = '"' if q == "'" else "'"
    inner = draw(st.text(alphabet=st.sampled_from(list("ab ,=\"'{é")),
                         max_size=6))
    i = draw(st.integers(0, len(inner)))
    v = q + inner[:i] + other + inner[i:] + q
    return {"opts": [["vf_opt", v]], "section": draw(_sections)}


@st.composite
def gen_both_quotes_later(draw):
    inner = draw(st.text(alphabet=st.sampled_from(list("ab ,=\"'{é")),
                         max_size=6))
    i = draw(st.integers(0, len(inner)))
    j = draw(st.integers(0, len(inner)))
    a, b = draw(st.sampled_from(["'\"", "\"'"]))
    lo, hi = min(i, j), max(i, j)
    v = inner[:lo] + a + inner[lo:hi] + b + inner[hi:]
    return {"opts": [["vf_opt", v]], "section": draw(_sections),
            "later": [["vf_later", "1"]]}


@st.composite
def gen_line_breaks(draw):
    br = draw(st.sampled_from(["\r", "\r", "\r\n", "\x0c", "\x85", "\u2028",
                               "\x0b", "\x1c"]))
    a = draw(st.text(alphabet=st.sampled_from(list("ab ,'\"\n")), max_size=4))
    b = draw(st.text(alphabet=st.sampled_from(list("ab ,'\"\n")), max_size=4))
    v = a + br + b
    if in_quote_class(v):
        v += "a"
    return {"opts": [["vf_opt", v]], "section": None,
            "other": draw(st.booleans())}


def run_line_breaks(case, env):
    """A value with CR / NEL / LS ... is neither refused nor kept."""
    from breezy import transport as _t
    config = _config()
    d = env.newdir("c")
    store = config.TransportIniFileStore(_t.get_transport(d), "x.conf")
    stack = config.Stack([store.get_sections], store)
    name, v = case["opts"][0]
    try:
        if case["other"]:
            stack.set("vf_before", "1")
        stack.set(name, v)
        store.save()
    except _refusals() as e:
        return rejected("store-refuses-value:" + type(e).__name__,
                        label="value-with-non-LF-line-break")
    store2 = config.TransportIniFileStore(_t.get_transport(d), "x.conf")
    reader = config.Stack([store2.get_sections], store2)
    try:
        got = reader.get(name, expand=False)
    except config.ParseConfigError as e:
        return violation(
            "C49/value-with-non-LF-line-break-makes-store-unparsable",
            {"case": case, "error": str(e)[:300]},
            label="value-with-non-LF-line-break")
    if got != v:
        return violation("C49/value-with-non-LF-line-break-altered",
                         {"case": case, "got": got},
                         label="value-with-non-LF-line-break")
    return ok("value-with-non-LF-line-break")


# ---------------------------------------------------------------- locations

_SCOMP = ["a", "a", "b", "ab", "*", "a*", "?", "[ab]", "[!a]", "c"]
_LCOMP = ["a", "a", "b", "ab", "c"]
_BASES = ["v%d", "sftp://example.com/loc%d", "lp:~u/p%d", "/srv/x%d",
          "a b%d"]


@st.composite
def gen_location(draw, norecurse=False):
    lcomps = draw(st.lists(st.sampled_from(_LCOMP), min_size=1, max_size=4))
    nsec = draw(st.integers(0, 6))
    names = []
    sections = []
    for i in range(nsec):
        k = draw(st.integers(0, 7))
        if k <= 3:
            # a (possibly generalised) prefix of the location
            n = draw(st.integers(0, len(lcomps)))
            comps = []
            for c in lcomps[:n]:
                g = draw(st.integers(0, 7))
                comps.append({4: "*", 5: c[0] + "*", 6: "?" * len(c),
                              7: "[%sb]" % c[0]}.get(g, c))
        else:
            comps = draw(st.lists(st.sampled_from(_SCOMP), max_size=3))
        name = "/" + "/".join(comps)
        if draw(st.integers(0, 5)) == 0:
            name = "file://" + name
        if draw(st.integers(0, 7)) == 0 and name != "/" and \
                name != "file:///":
            name += "/"
        if name in names:
            continue
        names.append(name)
        sec = {"name": name}
        if draw(st.integers(0, 4)) != 0:
            base = draw(st.sampled_from(_BASES)) % i
            ref = draw(st.sampled_from(["", "", "", "/{relpath}",
                                        "/{basename}", "-{basename}-"]))
            sec["value"] = base + ref
            pol = draw(st.sampled_from(
                [None, None, "appendpath", "none"] +
                (["norecurse", "norecurse"] if norecurse else [])))
            if pol:
                sec["policy"] = pol
        ign = draw(st.sampled_from([None, None, None, None, "True", "False",
                                    "yes"]))
        if ign:
            sec["ignore_parents"] = ign
        sections.append(sec)
    case = {"sections": sections,
            "location": "/" + "/".join(lcomps),
            "url": draw(st.integers(0, 4)) == 0,
            "trailing": draw(st.integers(0, 5)) == 0,
            "via": draw(st.sampled_from(["matcher", "matcher", "matcher",
                                         "location-stack"]))}
    if draw(st.integers(0, 3)) == 0:
        case["noname"] = "top%d" % draw(st.integers(0, 3))
    return case


def _ini_text(case):
    lines = []
    if case.get("noname") is not None:
        lines.append("opt = %s" % case["noname"])
    for s in case["sections"]:
        if "[" in s["name"]:
            lines.append('["%s"]' % s["name"])
        else:
            lines.append("[%s]" % s["name"])
        if "value" in s:
            lines.append("opt = %s" % s["value"])
        if "policy" in s:
            lines.append("opt:policy = %s" % s["policy"])
        if "ignore_parents" in s:
            lines.append("ignore_parents = %s" % s["ignore_parents"])
    return ("\n".join(lines) + "\n").encode("utf-8")


def _parts(path):
    if path.startswith("file://"):
        path = path[len("file://"):]
    return path.rstrip("/").split("/")


def _comp_match(pat, comp):
    return G._match(G.tokens(pat), comp, True)


_TRUE = {"true", "yes", "1", "on", "y", "t"}


def resolve(case):
    """Reference. -> (set of acceptable values, may_be_none, facts)"""
    lp = _parts(case["location"])
    matching = []
    for s in case["sections"]:
        sp = _parts(s["name"])
        if len(sp) > len(lp):
            continue
        if all(_comp_match(p, c) for p, c in zip(sp, lp)):
            matching.append((len(sp), s, "/".join(lp[len(sp):])))
    if case.get("noname") is not None:
        matching.append((0, {"name": None, "value": case["noname"]},
                         "/".join(lp)))
    depths = sorted({m[0] for m in matching}, reverse=True)
    accept = set()
    facts = {"matching": len(matching), "depths": len(depths),
             "barrier": False, "expanded": False}
    for d in depths:
        level = [m for m in matching if m[0] == d]
        barriers = [m for m in level if str(m[1].get("ignore_parents", "")
                                            ).lower() in _TRUE]
        defining = [m for m in level if m not in barriers and
                    "value" in m[1]]
        for _, s, extra in defining:
            accept.update(_expand(s, extra, facts))
        if barriers:
            # an equally deep section may be consulted before the barrier or
            # after it (tie order is unspecified): its values and "nothing"
            # are both acceptable; nothing less specific is
            facts["barrier"] = True
            return accept, True, facts
        if defining:
            return accept, False, facts
    return accept, True, facts


def _expand(s, extra, facts):
    v = s["value"]
    outs = [v]
    if s.get("policy") == "appendpath":
        if extra:
            outs = [v + "/" + extra]
            facts["expanded"] = True
        else:
            outs = [v, v + "/"]      # join(v, '') appends a slash: unspecified
    if "{" in v and extra:
        facts["expanded"] = True
    base = extra.rsplit("/", 1)[-1]
    return {o.replace("{relpath}", extra).replace("{basename}", base)
            for o in outs}


def _location_arg(case):
    loc = case["location"]
    if case["trailing"]:
        loc += "/"
    if case["url"]:
        loc = "file://" + loc
    return loc


def _resolve_real(case, env):
    config = _config()
    from breezy import bedding, transport as _t
    text = _ini_text(case)
    loc = _location_arg(case)
    if case["via"] == "location-stack":
        _clear_user_config()
        d = bedding.config_dir()
        os.makedirs(d, exist_ok=True)
        with open(os.path.join(d, "locations.conf"), "wb") as f:
            f.write(text)
        try:
            return config.LocationStack(loc).get("opt")
        finally:
            _clear_user_config()
    d = env.newdir("c")
    t = _t.get_transport(d)
    t.put_bytes("locations.conf", text)
    store = config.TransportIniFileStore(t, "locations.conf")
    matcher = config.LocationMatcher(store, loc)
    return config.Stack([matcher.get_sections], store).get("opt")


def run_location(case, env):
    accept, may_be_none, facts = resolve(case)
    got = _resolve_real(case, env)
    detail = {"case": case, "got": got, "acceptable": sorted(accept),
              "none-acceptable": may_be_none}
    if got is None:
        if not may_be_none:
            check(False, "C49/location-matching-section-not-used", detail)
    elif got not in accept:
        sig = "C49/location-value-from-less-specific-or-unmatched-section"
        allv = set()
        for s in case["sections"]:
            if "value" in s:
                allv.add(s["value"])
        if got not in allv and got != case.get("noname"):
            sig = "C49/location-policy-or-expansion-wrong"
        elif facts["barrier"]:
            sig = "C49/location-ignore_parents-barrier-not-respected"
        check(False, sig, detail)
    if facts["barrier"] and facts["matching"] >= 2:
        return ok("ignore_parents-barrier")
    if facts["expanded"] and got is not None:
        return ok("policy-or-expansion-on-remainder")
    if facts["depths"] >= 2:
        return ok("several-matching-depths")
    return trivial()


def run_norecurse(case, env):
    """Documented: 'norecurse: the value is only used for the exact location
    specified by the section name.'"""
    lp = _parts(case["location"])
    hit = False
    for s in case["sections"]:
        if s.get("policy") == "norecurse" and "value" in s:
            sp = _parts(s["name"])
            if len(sp) < len(lp) and all(
                    _comp_match(p, c) for p, c in zip(sp, lp)):
                hit = True
    if not hit:
        return trivial()
    # reference: drop norecurse values from sections that are not exact
    pruned = dict(case)
    pruned["sections"] = []
    for s in case["sections"]:
        s2 = dict(s)
        if s.get("policy") == "norecurse" and len(_parts(s["name"])) < len(lp):
            s2.pop("value", None)
        pruned["sections"].append(s2)
    accept, may_be_none, facts = resolve(pruned)
    got = _resolve_real(case, env)
    if (got is None and may_be_none) or got in accept:
        return ok("norecurse-section-above-location")
    return violation("C49/norecurse-policy-ignored-by-location-stack",
                     {"case": case, "got": got, "acceptable": sorted(accept),
                      "none-acceptable": may_be_none},
                     label="norecurse-section-above-location")


def kinds(tier):
    return [
        Kind("value-roundtrip", run_values, strategy=gen_values(),
             examples={"quick": 3000, "thorough": 120000}),
        Kind("value-roundtrip-stacks", run_value_stacks,
             strategy=gen_values(stacks=True),
             examples={"quick": 300, "thorough": 10000},
             teardown=teardown_user_config),
        Kind("location", run_location, strategy=gen_location(),
             examples={"quick": 2500, "thorough": 100000},
             teardown=teardown_user_config),
        Kind("value-survives-later-save", run_values,
             strategy=gen_values(later=True),
             examples={"quick": 1500, "thorough": 50000}),
        Kind("both-quote-kinds-later-save", run_values,
             strategy=gen_both_quotes_later(),
             examples={"quick": 60, "thorough": 1000}),
        Kind("f22-residual-quote-class", run_values,
             strategy=gen_quote_class(),
             examples={"quick": 60, "thorough": 1000}),
        Kind("non-LF-line-breaks", run_line_breaks, strategy=gen_line_breaks(),
             examples={"quick": 80, "thorough": 1500}),
        Kind("norecurse-policy", run_norecurse,
             strategy=gen_location(norecurse=True),
             examples={"quick": 150, "thorough": 3000},
             teardown=teardown_user_config),
    ]
