"""C07 - autopack planning is well-formed for every pack size distribution:
pure planner (pack_distribution, _max_pack_count, plan_autopack_combinations
called the way _do_autopack calls them) over enumerated and generated
multisets, and real repositories whose packs are produced by separate write
groups."""

import itertools

from hypothesis import strategies as st

from vf.api import Kind, check, ok, trivial

PROPERTY = "C07"
LEVEL = "exploration"
TECHNIQUE = ("exhaustive enumeration of bounded multisets + Hypothesis lists "
             "against an arithmetic oracle; end-to-end repositories with real "
             "Pack objects, planner observed in place")
RULE = ("enumerated: every multiset of 1-5 (quick) / 1-7 (thorough) pack revision "
        "counts from {1,2,3,4,5,9,10,11,19,20,99,100,101,999,1000}, total = sum; "
        "generated: 1-60 counts in [1, 10^6] drawn from a small pool (heavy "
        "duplication) around powers of ten; end-to-end: 2a / pack-0.92 / 1.9 "
        "repositories filled by 1-25 write groups (fetch of k revisions, signature "
        "only pack, two writers inserting the same revisions) with autopack "
        "switched off for a generated subset of the groups so that arbitrary pack "
        "multisets reach the final, unmodified write group; one case in three "
        "keeps a single long-lived repository object for all its write groups; "
        "inside the watched group the counts and the distribution handed to the "
        "planner are compared with the packs' own counts and key_count(). Non-trivial: the "
        "autopack trigger is taken (pack count above the digit sum). Distinct by "
        "construction (enumeration) / by case hash.")
ASSUMPTIONS = [
    "total revision count == sum of the per-pack counts (what "
    "CombinedGraphIndex.key_count() returned for every repository the "
    "end-to-end kind built; asserted there, so a way to create duplicated "
    "revisions across packs would be reported, not silently unexplored)",
    "pack stand-ins in the pure kinds are unique strings; real Pack objects are "
    "orderable as well (bzrformats Pack.__lt__)",
]
LEVEL_TEXT = ("The planner is a pure function of the multiset of counts: all "
              "multisets below the bound are enumerated, larger ones sampled, "
              "and the same oracle watches the planner inside real commits. The "
              "domain total < sum is excluded (see assumptions), hence "
              "exploration, exhaustive for the bounded multisets.")
LEVEL_NOTE = ("Trusts bzrformats (pack/index writing, key_count) as the base; "
              "autopack is disabled by the harness on selected write groups only "
              "to construct pack multisets, never on the observed one.")
REGISTERED = True
NONTRIVIAL_FLOOR = {"quick": 3000, "thorough": 50000}

VALUES = [1, 2, 3, 4, 5, 9, 10, 11, 19, 20, 99, 100, 101, 999, 1000]


def digit_sum(n):
    return sum(int(c) for c in str(n))


# ---------------------------------------------------------------- pure planner

def _collection(env):
    coll = env.shared.get("c07-coll")
    if coll is None:
        from breezy import controldir, transport
        fmt = controldir.format_registry.make_controldir("2a")
        cd = fmt.initialize_on_transport(
            transport.get_transport("memory:///"))
        repo = cd.create_repository()
        coll = repo._pack_collection
        env.shared["c07-coll"] = coll
    return coll


def check_plan(existing, total, plan, info):
    """existing: list of (count, pack) as handed to the planner (a copy),
    plan: what plan_autopack_combinations returned."""
    check(isinstance(plan, list), "C07/plan-not-a-list", [info, repr(plan)])
    check(len(plan) <= 1, "C07/plan-has-several-operations",
          [info, _plan_repr(plan)])
    if not plan:
        return None
    op = plan[0]
    check(len(op) == 2, "C07/plan-operation-malformed", [info, _plan_repr(plan)])
    count, packs = op
    check(len(packs) >= 2, "C07/plan-combines-fewer-than-two-packs",
          [info, _plan_repr(plan)])
    by_id = {}
    for c, p in existing:
        by_id[id(p)] = c
    seen = set()
    for p in packs:
        check(id(p) in by_id, "C07/plan-names-a-pack-not-in-the-input",
              [info, _plan_repr(plan)])
        check(id(p) not in seen, "C07/plan-names-a-pack-twice",
              [info, _plan_repr(plan)])
        seen.add(id(p))
    check(count == sum(by_id[id(p)] for p in packs),
          "C07/plan-count-is-not-the-sum-of-combined-packs",
          [info, _plan_repr(plan)])
    after = len(existing) - len(packs) + 1
    check(after <= digit_sum(total), "C07/pack-count-after-plan-above-digit-sum",
          [info, _plan_repr(plan), after, digit_sum(total)])
    return op


def _plan_repr(plan):
    try:
        return [[op[0], [getattr(p, "name", p) for p in op[1]]] for op in plan]
    except Exception:  # noqa: BLE001 - only formatting a report
        return repr(plan)


def law_planner(coll, counts, total):
    """Drive the three functions exactly as _do_autopack does."""
    info = {"counts": list(counts), "total": total}
    existing = [(c, "p%03d" % i) for i, c in enumerate(counts)]
    maxc = coll._max_pack_count(total)
    check(maxc == digit_sum(total), "C07/max-pack-count-is-not-the-digit-sum",
          [info, maxc])
    dist = coll.pack_distribution(total)
    if maxc >= len(existing):
        # within the bound: _do_autopack does not plan; the planner itself,
        # asked anyway, plans nothing
        plan = coll.plan_autopack_combinations(list(existing), list(dist))
        check(plan == [], "C07/plans-although-pack-count-within-bound",
              [info, _plan_repr(plan)])
        return False
    plan = coll.plan_autopack_combinations(list(existing), list(dist))
    op = check_plan(existing, total, plan, info)
    check(op is not None, "C07/no-plan-although-pack-count-above-bound", info)
    return True


def run_counts(case, env):
    counts = case["counts"]
    total = sum(counts)
    taken = law_planner(_collection(env), counts, total)
    if not taken:
        return trivial()
    if len(set(counts)) < len(counts):
        return ok("trigger-taken/duplicate-counts")
    return ok("trigger-taken/distinct-counts")


def _enum_max(tier):
    return 5 if tier == "quick" else 7


def enum_multisets(tier):
    for n in range(1, _enum_max(tier) + 1):
        for combo in itertools.combinations_with_replacement(VALUES, n):
            yield {"counts": list(combo)}


_NEAR = [1, 2, 5, 9, 10, 11, 19, 20, 21, 90, 99, 100, 101, 110, 111, 199, 200,
         999, 1000, 1001, 9999, 10000, 10001, 99999, 100000, 999999, 1000000]


@st.composite
def gen_counts(draw):
    pool = draw(st.lists(st.one_of(st.sampled_from(_NEAR),
                                   st.integers(1, 30),
                                   st.integers(1, 10 ** 6)),
                         min_size=1, max_size=4))
    n = draw(st.integers(1, 60))
    idx = draw(st.lists(st.integers(0, len(pool) - 1), min_size=n, max_size=n))
    return {"counts": [pool[i] for i in idx]}


# ---------------------------------------------------------------- end to end

FORMATS = ["2a", "2a", "pack-0.92", "1.9"]
N_REVS = 130


def _rev(i):
    return b"r%d" % i


def _source(env, fmtname):
    key = "c07-src-" + fmtname
    src = env.shared.get(key)
    if src is None:
        from breezy import controldir, transport
        from breezy.branchbuilder import BranchBuilder
        fmt = controldir.format_registry.make_controldir(fmtname)
        bb = BranchBuilder(transport.get_transport("memory:///c07-src-%s/" %
                                                   fmtname), format=fmt)
        bb.start_series()
        bb.build_snapshot(None, [
            ("add", ("", b"root-id", "directory", None)),
            ("add", ("f", b"f-id", "file", b"0\n"))], revision_id=_rev(0))
        for i in range(1, N_REVS):
            bb.build_snapshot([_rev(i - 1)], [("modify", ("f", b"%d\n" % i))],
                              revision_id=_rev(i))
        bb.finish_series()
        src = bb.get_branch().repository
        env.shared[key] = src
    return src


class _Watch:
    """Observes plan_autopack_combinations inside a real write group."""

    def __init__(self, coll, info):
        self.coll = coll
        self.info = info
        self.calls = 0
        self.taken = False
        self.total = None
        self._orig = coll.plan_autopack_combinations
        coll.plan_autopack_combinations = self.plan

    def plan(self, existing_packs, pack_distribution):
        self.calls += 1
        existing = list(existing_packs)
        total = self.total = sum(pack_distribution)
        info = dict(self.info)
        info["in-vivo"] = sorted((c for c, _p in existing), reverse=True)
        info["distribution-total"] = total
        # what _do_autopack hands to the planner: every pack with its own
        # revision count, and the distribution of the repository's total
        for c, p in existing:
            check(c == p.get_revision_count() and c > 0,
                  "C07/planner-fed-count-differs-from-pack-revision-count",
                  [info, c, p.get_revision_count()])
        key_count = self.coll.revision_index.combined_index.key_count()
        check(total == key_count,
              "C07/planner-fed-distribution-of-another-total",
              [info, key_count])
        plan = self._orig(existing_packs, pack_distribution)
        op = check_plan(existing, total, plan, info)
        if op is not None:
            self.taken = True
        return plan


def _state(repo):
    coll = repo._pack_collection
    coll.ensure_loaded()
    counts = [p.get_revision_count() for p in coll.all_packs()]
    total = coll.revision_index.combined_index.key_count()
    return counts, total


class _Session:
    """Hands out the repository object for a write group: a fresh one per
    group, or one long-lived object for the whole case (stale in-memory pack
    names / indices after an autopack would show there)."""

    def __init__(self, url, reuse):
        self.url = url
        self.reuse = reuse
        self._repo = None

    def repo(self):
        from breezy import repository
        if not self.reuse:
            return repository.Repository.open(self.url)
        if self._repo is None:
            self._repo = repository.Repository.open(self.url)
        return self._repo


def _instrument(coll, suppress, info):
    if suppress:
        coll.autopack = lambda: None
        return None
    return _Watch(coll, info)


def _restore(coll):
    coll.__dict__.pop("autopack", None)
    coll.__dict__.pop("plan_autopack_combinations", None)


def _fetch(session, src, tip, suppress, info):
    repo = session.repo()
    repo.lock_write()
    try:
        coll = repo._pack_collection
        watch = _instrument(coll, suppress, info)
        try:
            repo.fetch(src, _rev(tip))
        finally:
            _restore(coll)
    finally:
        repo.unlock()
    return watch


def _sign(session, revs, suppress, info, salt=0):
    repo = session.repo()
    repo.lock_write()
    try:
        coll = repo._pack_collection
        watch = _instrument(coll, suppress, info)
        try:
            repo.start_write_group()
            try:
                for r in revs:
                    repo.add_signature_text(_rev(r), b"signature %d of r%d" % (
                        salt, r))
            except BaseException:
                repo.abort_write_group()
                raise
            repo.commit_write_group()
        finally:
            _restore(coll)
    finally:
        repo.unlock()
    return watch


def _two_writers(url, src, tip, info):
    """Two repository objects insert the same revisions before either commits."""
    from breezy import errors, repository
    r1 = repository.Repository.open(url)
    r2 = repository.Repository.open(url)
    watches = []
    started = []
    try:
        for r in (r1, r2):
            r.lock_write()
            started.append([r, False])
            r.start_write_group()
            started[-1][1] = True
            with src.lock_read():
                source = src._get_source(r._format)
                sink = r._get_sink()
                search = r.search_missing_revision_ids(
                    src, revision_ids=[_rev(tip)])
                sink.insert_stream_without_locking(
                    source.get_stream(search), src._format)
        for entry in started:
            r = entry[0]
            watches.append(_Watch(r._pack_collection, info))
            try:
                r.commit_write_group()
            except errors.BzrError as e:
                # byte-identical packs get the same content-hash name; the
                # second one is refused loudly ("Pack ... already exists")
                if type(e) is not errors.BzrError or \
                        "already exists" not in str(e):
                    raise
                continue
            entry[1] = False
    finally:
        for r, in_group in reversed(started):
            if in_group:
                r.abort_write_group(suppress_errors=True)
            r.unlock()
    return watches[-1]


def _verify(url, have, signed, info, bound, planned_total=None):
    from breezy import repository
    repo = repository.Repository.open(url)
    with repo.lock_read():
        counts, total = _state(repo)
        info = dict(info)
        info["packs"] = sorted(counts, reverse=True)
        info["key_count"] = total
        check(total == sum(counts),
              "C07/assumption-broken:key_count-differs-from-sum-of-pack-counts",
              info)
        # key_count() counts a revision once per pack holding it (two writers
        # inserting the same revisions do produce such packs), so it may
        # exceed the number of distinct revisions but never fall below it
        check(total >= have, "C07/revisions-lost-by-autopack", [info, have])
        carrying = len([c for c in counts if c > 0])
        if bound:
            # when packs holding the same revisions are combined the new pack
            # holds them once, so key_count() shrinks below the total the plan
            # was made for; the bound is the one of the planned total
            ref_total = total if planned_total is None else planned_total
            check(carrying <= digit_sum(ref_total),
                  "C07/repository-pack-count-above-digit-sum-after-write-group",
                  [info, carrying, ref_total, digit_sum(ref_total)])
        ids = repo.all_revision_ids()
        check(sorted(ids) == sorted(_rev(i) for i in range(have)),
              "C07/revision-ids-wrong-after-autopack", [info, len(ids)])
        revs = repo.get_revisions([_rev(i) for i in range(have)])
        check([r.revision_id for r in revs] == [_rev(i) for i in range(have)],
              "C07/revisions-unreadable-after-autopack", info)
        for i in sorted(set([0, have - 1, have // 2, have // 3])):
            text = repo.revision_tree(_rev(i)).get_file_text("f")
            check(text == b"%d\n" % i, "C07/file-text-wrong-after-autopack",
                  [info, i, repr(text)])
        for r in sorted(signed):
            check(repo.has_signature_for_revision_id(_rev(r)),
                  "C07/signature-lost-after-autopack", [info, r])
        return total - have


def run_e2e(case, env):
    from breezy import controldir, transport
    fmtname = case["format"]
    src = _source(env, fmtname)
    d = env.newdir("c07")
    fmt = controldir.format_registry.make_controldir(fmtname)
    fmt.initialize_on_transport(transport.get_transport(d)).create_repository()
    have = 0
    signed = set()
    taken = 0
    dups = 0
    info = {"format": fmtname, "steps": case["steps"]}
    session = _Session(d, bool(case.get("reuse")))
    steps = list(case["steps"])
    for n, step in enumerate(steps):
        what, arg, suppress = step
        last = n == len(steps) - 1
        suppress = bool(suppress) and not last
        sinfo = dict(info)
        sinfo["at-step"] = n
        watch = None
        if what == "fetch":
            k = min(arg, N_REVS - have)
            if k <= 0:
                continue
            have += k
            watch = _fetch(session, src, have - 1, suppress, sinfo)
        elif what == "sign":
            if have == 0:
                continue
            unsigned = [i for i in range(have) if i not in signed]
            if not unsigned:
                continue
            revs = [unsigned[arg % len(unsigned)]]
            signed.update(revs)
            watch = _sign(session, revs, suppress, sinfo, salt=n)
        else:
            k = min(arg, N_REVS - have)
            if k <= 0:
                continue
            have += k
            watch = _two_writers(d, src, have - 1, sinfo)
            # concurrent writers decide on a stale view: a construction step
            suppress = True
        dups = max(dups, _verify(
            d, have, signed, sinfo, bound=not suppress,
            planned_total=watch.total if watch is not None else None))
        if watch is not None and watch.taken:
            taken += 1
    suffix = "+duplicated-revisions" if dups else ""
    if case.get("reuse"):
        suffix += "+long-lived-repository-object"
    if taken >= 2:
        return ok("e2e/several-autopacks" + suffix)
    if taken == 1:
        return ok("e2e/one-autopack" + suffix)
    return trivial()


_SIZES = [1, 1, 1, 1, 2, 2, 3, 4, 5, 9, 10, 11, 19, 20]


@st.composite
def gen_e2e(draw):
    fmt = draw(st.sampled_from(FORMATS))
    mode = draw(st.sampled_from(["suppressed", "suppressed", "natural",
                                 "mixed"]))
    n = draw(st.sampled_from([2, 5, 9, 12, 16, 20, 25]))
    steps = []
    budget = N_REVS
    for _ in range(n):
        what = draw(st.sampled_from(["fetch"] * 8 + ["sign", "two-writers"]))
        if mode == "suppressed":
            sup = True
        elif mode == "natural":
            sup = False
        else:
            sup = draw(st.booleans())
        if what == "sign":
            steps.append(["sign", draw(st.integers(0, N_REVS)), sup])
            continue
        k = draw(st.sampled_from(_SIZES))
        k = min(k, budget)
        if k <= 0:
            break
        budget -= k
        steps.append([what, k, sup])
    # the observed, unmodified write group
    if budget > 0:
        steps.append(["fetch", min(draw(st.sampled_from([1, 1, 2, 10])),
                                    budget), False])
    else:
        steps.append(["sign", 0, False])
    return {"format": fmt, "steps": steps,
            "reuse": draw(st.sampled_from([False, False, True]))}


def kinds(tier):
    return [
        Kind("enum-multisets", run_counts, enumerate=enum_multisets,
             exhaustive=True, hash_cases=False),
        Kind("generated-counts", run_counts, strategy=gen_counts(),
             examples={"quick": 5000, "thorough": 200000}),
        Kind("end-to-end", run_e2e, strategy=gen_e2e(),
             examples={"quick": 128, "thorough": 1500}),
    ]
