"""C08 - stacked branches stay readable from their own repository plus fallbacks."""

import os

from hypothesis import strategies as st

from vf.api import Kind, check, ok, rejected, trivial
from vf.lib import bz
from vf.lib import c03_fetch as cf
from vf.lib import graphmodel as gm
from vf.lib import history as hist
from vf.lib import treemodel as tm

PROPERTY = "C08"
LEVEL = "exploration"
TECHNIQUE = ("Hypothesis-generated histories, fallback splits and programs of "
             "commit/push/pull/fetch on a stacked branch; invariant oracle on the "
             "stacked repository opened without its fallback + full read-back "
             "through the branch against the tree models")
RULE = ("history spec (3-12 revisions, merges, ghost parents) built in a 'full' "
        "branch; a fallback branch holding the ancestor-closed set generated "
        "from 1-2 split revisions; a stacked branch (2a, and the 1.9/1.14 family) "
        "created by sprout(stacked=True), create_clone_on_transport(stacked_on=) "
        "(what push --stacked-on does) or init + set_stacked_on_url; then 1-4 "
        "steps: commit in a lightweight checkout of the stacked branch, commit "
        "there of a merge of a trunk revision that was added to the fallback "
        "only, push "
        "into it, pull into it, Repository.fetch of a chosen revision - locally "
        "or with the stacked branch opened through a smart TCP server. After "
        "every step the invariant is evaluated; 'sink-resume' kind: the public "
        "sink API on a stacked 2a repository - first insert_stream of one "
        "revision (rename / add / delete against parents that live only in "
        "the fallback) reports missing parent inventories, the write group is "
        "resumed with an empty or a complete second stream; it must be "
        "refused, or leave the revision delta-complete or self-sufficient. "
        "Non-trivial: the stacked "
        "repository holds >= 1 revision one of whose parents lives only in the "
        "fallback. Distinct by case hash (DAG, split, creation mode, program).")
ASSUMPTIONS = [
    "BranchBuilder builds the history the spec describes",
    "bzrformats chk_map / pack / index code is trusted base (the CHK page "
    "difference is computed with chk_map.iter_interesting_nodes over the "
    "fallback-less repository)",
    "a text is 'changed' when its model entry differs from the entry in every "
    "parent (C02's rule, checked there)",
]
LEVEL_TEXT = ("Generated splits between fallback and stacked repository and "
              "generated programs of the operations that write to a stacked "
              "branch; after every operation the stacked repository is opened "
              "alone and must hold the inventories, parent inventories, CHK page "
              "differences and changed texts of every revision it lists, and "
              "every revision tree of the branch is read back in full through "
              "the fallback and compared with the model. A sample, not a proof.")
LEVEL_NOTE = ("Trusted: bzrformats storage and chk_map; tree models and ancestry "
              "are the harness' own.")
REGISTERED = True
NONTRIVIAL_FLOOR = {"quick": 80, "thorough": 3000}

PRE2A = ["1.9", "1.9-rich-root", "1.14", "1.14-rich-root"]


@st.composite
def stack_case(draw, tier="quick", smart=False):
    n_max = 7 if tier == "quick" else 12
    spec = draw(hist.history_spec(n_min=3, n_max=n_max, merges=True,
                                  ghosts=True, odd_names=False, bb_safe=True,
                                  ops_max=2, base_max=3, empty_ok=True))
    ids = [r["id"] for r in spec["revs"]]
    fmt = "2a" if draw(st.integers(0, 9)) < 7 else draw(st.sampled_from(PRE2A))
    split = draw(st.lists(st.sampled_from(ids[:-1]), min_size=1, max_size=2,
                          unique=True))
    mode = draw(st.sampled_from(["sprout", "clone", "clone", "init"]))
    first = draw(st.sampled_from(ids))        # revision the clone pushes
    steps = []
    n = draw(st.integers(1, 4))
    ncommit = 0
    for _ in range(n):
        k = draw(st.sampled_from(["push", "pull", "fetch", "commit", "commit",
                                  "mergecommit", "mergecommit"]))
        if k in ("commit", "mergecommit"):
            # ops are late-bound: drawn against an empty model extension; use
            # only additions of new files under the root and modifications by
            # index, so that they apply to whatever the tip is
            ncommit += 1
            ops = []
            for j in range(draw(st.integers(1, 2))):
                if draw(st.booleans()):
                    ops.append(["addfile", "c%d-%d-id" % (ncommit, j),
                                "n%d_%d" % (ncommit, j),
                                draw(tm.text_strategy())])
                else:
                    ops.append(["modfile", draw(st.integers(0, 5)),
                                draw(tm.text_strategy())])
            if k == "commit":
                steps.append(["commit", ops])
            else:
                # commit a merge of a trunk revision that is first added to
                # the FALLBACK only (the trunk moved on after stacking)
                steps.append(["mergecommit", ops, draw(st.sampled_from(ids))])
        else:
            steps.append([k, draw(st.sampled_from(ids))])
    return {"spec": spec, "fmt": fmt, "split": split, "mode": mode,
            "first": first, "steps": steps, "smart": smart,
            "reuse": draw(st.booleans())}


class World:
    def __init__(self, case, env):
        self.case = case
        self.env = env
        self.spec = case["spec"]
        self.fmt = case["fmt"]
        self.d = env.newdir("c08")
        self.graph = dict(hist.graph_of(self.spec, ghosts=True))
        self.models = hist.models_of(self.spec)
        self.smart = case["smart"]
        self.ncommit = 0
        self.nt = False
        self.labels = set()

    def p(self, name):
        return os.path.join(self.d, name)

    def lefthand_tip(self, rev):
        """(revno, rev) for set_last_revision_info in the model graph."""
        g = {r: tuple(p for p in ps) for r, ps in self.graph.items()}
        return len(gm.lefthand(g, rev))

    def open_stacked(self, smart=None):
        smart = self.smart if smart is None else smart
        if self.case.get("reuse") and not smart:
            # one long-lived Branch object for all local steps (caches of the
            # stacked repository survive from one operation to the next)
            if getattr(self, "_stacked_obj", None) is None:
                self._stacked_obj = cf.open_branch(self.env, self.p("stacked"),
                                                   False)
            return self._stacked_obj
        return cf.open_branch(self.env, self.p("stacked"), smart)

    def setup(self):
        from breezy import branch as _b
        from breezy import transport as _t
        full = bz.init_branch(self.p("full"), self.fmt)
        hist.build_bb(self.spec, full)
        hist.set_tip(full, self.spec, self.spec["revs"][-1]["id"])
        base = bz.init_branch(self.p("base"), self.fmt)
        g = hist.graph_of(self.spec, ghosts=True)
        self.fallback_revs = set()
        for r in self.case["split"]:
            base.repository.fetch(full.repository, revision_id=bz.enc(r))
            self.fallback_revs |= gm.ancestry(g, r)
        hist.set_tip(base, self.spec, self.case["split"][0])
        mode = self.case["mode"]
        try:
            if mode == "sprout":
                b = cf.open_branch(self.env, self.p("base"), self.smart)
                if self.smart:
                    t = cf.smart_transport(self.env, self.d)
                    b.controldir.sprout(
                        cf.smart_url(self.env, self.p("stacked")), stacked=True,
                        possible_transports=[t])
                else:
                    b.controldir.sprout(self.p("stacked"), stacked=True,
                                        create_tree_if_local=False)
            elif mode == "clone":
                f = _b.Branch.open(self.p("full"))
                if self.smart:
                    tt = cf.smart_transport(self.env, self.p("stacked"))
                    on = cf.smart_url(self.env, self.p("base"))
                else:
                    tt = _t.get_transport(self.p("stacked"))
                    on = _b.Branch.open(self.p("base")).base
                f.create_clone_on_transport(
                    tt, revision_id=bz.enc(self.case["first"]), stacked_on=on)
            else:
                sb = bz.init_branch(self.p("stacked"), self.fmt)
                sb.set_stacked_on_url("../base")
        finally:
            if self.smart:
                cf.smart_disconnect(self.env)
        sb = _b.Branch.open(self.p("stacked"))
        url = sb.get_stacked_on_url()
        check(url, "C08/created-branch-is-not-stacked", [mode, url])
        if "://" in url and not url.startswith("file:"):
            # keep local opens local: same location, relative form
            sb.set_stacked_on_url("../base")
        self.verify("create-" + mode)

    # ------------------------------------------------------------ the oracle
    def verify(self, after, final=False):
        from breezy import branch as _b
        local, boundary = cf.stacking_invariant(
            "C08", self.p("stacked"), self.graph, self.models,
            tag="after-" + after.split("-")[0])
        if boundary:
            self.nt = True
        b = _b.Branch.open(self.p("stacked"))
        pre = "C08/after-%s-" % after.split("-")[0]
        with b.lock_read():
            tip = cf._s(b.last_revision())
            repo = b.repository
            if tip != "null:":
                check(tip in self.graph, pre + "tip-unknown", tip)
                anc = gm.ancestry(self.graph, tip)
                for r in sorted(anc):
                    tree = repo.revision_tree(bz.enc(r))
                    got = bz.snapshot_tree(tree)
                    want = bz.model_snapshot(self.models[r])
                    check(got == want, pre + "revision-tree-differs-from-model",
                          {"rev": r, "diff": sorted(
                              p for p in set(got) | set(want)
                              if got.get(p) != want.get(p))})
                    for p in self.graph[r]:
                        if p not in self.graph:
                            continue
                        ptree = repo.revision_tree(bz.enc(p))
                        delta = tree.changes_from(ptree)
                        changed = bz.model_snapshot(self.models[p]) != want
                        check(bool(delta.has_changed()) == changed,
                              pre + "changes_from-parent-wrong",
                              {"rev": r, "parent": p, "model-changed": changed})
            if final:
                self.check_repo(repo)
        return local, boundary

    def check_repo(self, repo):
        """Repository.check() through the fallback must be clean. One class
        is named separately: per-file parents recorded by a commit made IN
        the stacked branch that are a superset of the right ones (the commit
        builder takes per-file heads from the stacked repository's own text
        index and so cannot see ancestry that lives in the fallback)."""
        res = repo.check(None)
        own = [i for i in res.inconsistent_parents
               if cf._s(i[0]) in self.graph and cf._s(i[0]).startswith("c")
               and set(i[3]) < set(i[2])]
        if own and len(own) == len(res.inconsistent_parents):
            check(False,
                  "C08/commit-in-stacked-branch-keeps-non-head-text-parents",
                  [[cf._s(i[0]), cf._s(i[1]), [cf._s(x) for x in i[2]],
                    [cf._s(x) for x in i[3]]] for i in own][:5])
        cf.check_clean(repo, "C08/")

    # ------------------------------------------------------------ the steps
    def step(self, st_):
        from breezy import branch as _b
        from breezy import errors
        k = st_[0]
        try:
            if k == "pull":
                f = _b.Branch.open(self.p("full"))
                s = self.open_stacked()
                s.pull(f, overwrite=True, stop_revision=bz.enc(st_[1]))
            elif k == "push":
                f = _b.Branch.open(self.p("full"))
                s = self.open_stacked()
                f.push(s, overwrite=True, stop_revision=bz.enc(st_[1]))
            elif k == "fetch":
                f = _b.Branch.open(self.p("full"))
                s = self.open_stacked()
                s.repository.fetch(f.repository, revision_id=bz.enc(st_[1]))
            elif k == "commit":
                return self.commit(st_[1])
            elif k == "mergecommit":
                return self.commit(st_[1], merge=st_[2])
            else:
                raise ValueError(st_)
        finally:
            if self.smart:
                cf.smart_disconnect(self.env)
        self.labels.add(k)
        return None

    def commit(self, ops, merge=None):
        from breezy import branch as _b
        from breezy import errors
        lb = _b.Branch.open(self.p("stacked"))
        tip = cf._s(lb.last_revision())
        if tip == "null:":
            return None
        if merge is not None:
            if merge in gm.ancestry(self.graph, tip):
                merge = None        # already merged: an ordinary commit
            else:
                base = _b.Branch.open(self.p("base"))
                full = _b.Branch.open(self.p("full"))
                base.repository.fetch(full.repository,
                                      revision_id=bz.enc(merge))
                del base, full
        self.ncommit += 1
        rid = "c%d" % self.ncommit
        m = tm.clone(self.models[tip])
        co = self.p("co%d" % self.ncommit)
        s = self.open_stacked()
        wt = s.create_checkout(co, lightweight=True)
        refused = None
        try:
            with wt.lock_write():
                real = []
                files = sorted(f for f in m if m[f]["kind"] == "file")
                for op in ops:
                    if op[0] == "addfile":
                        if op[2] in tm.names_in(m, tm.ROOT_ID):
                            continue
                        real.append(["add", op[1], tm.ROOT_ID, op[2], "file",
                                     op[3], False])
                    elif files:
                        f = files[op[1] % len(files)]
                        real.append(["modify", f, op[2]])
                bz.apply_ops_wt(wt, m, real)
                bz.age_files(co)
                if merge is not None:
                    wt.set_parent_ids([bz.enc(tip), bz.enc(merge)])
                try:
                    wt.commit("commit %s" % rid, rev_id=bz.enc(rid),
                              timestamp=bz.T0 + 5000 + self.ncommit, timezone=0,
                              committer=bz.COMMITTER, allow_pointless=True,
                              revprops={"branch-nick": "nick"})
                except errors.BzrError as e:
                    if type(e) is errors.BzrError and str(e).startswith(
                            "Cannot commit directly to a stacked branch in "
                            "pre-2a formats"):
                        refused = str(e)
                    else:
                        raise
        finally:
            if self.smart:
                cf.smart_disconnect(self.env)
        if self.fmt in PRE2A:
            check(refused is not None,
                  "C08/commit-to-stacked-pre-2a-branch-not-refused", self.fmt)
            after = cf._s(_b.Branch.open(self.p("stacked")).last_revision())
            check(after == tip, "C08/refused-commit-moved-the-tip", [tip, after])
            self.labels.add("commit-refused")
            return "refused"
        check(refused is None, "C08/commit-to-stacked-2a-branch-refused",
              refused)
        self.graph[rid] = (tip,) if merge is None else (tip, merge)
        self.models[rid] = m
        self.labels.add("commit" if merge is None else "mergecommit")
        got = tuple(cf._s(p) for p in _b.Branch.open(
            self.p("stacked")).repository.get_revision(bz.enc(rid)).parent_ids)
        if got != self.graph[rid]:
            raise RuntimeError("harness: %s committed with parents %r, model "
                               "%r" % (rid, got, self.graph[rid]))
        return None


def run(case, env):
    w = World(case, env)
    w.setup()
    refusals = 0
    for i, st_ in enumerate(case["steps"]):
        r = w.step(st_)
        if r == "refused":
            refusals += 1
        w.verify(st_[0], final=(i == len(case["steps"]) - 1))
    bits = [case["mode"]] + sorted(w.labels)
    if case["smart"]:
        bits.append("smart")
    if case["fmt"] != "2a":
        bits.append("pre2a")
    label = "+".join(bits)
    if not w.nt:
        if refusals:
            return rejected("commit to stacked pre-2a branch: BzrError")
        return trivial()
    if refusals:
        return rejected("commit to stacked pre-2a branch: BzrError", label=label)
    return ok(label)


# ---------------------------------------------------------------- sink kind
# Directed: the public sink API with a suspended + resumed write group whose
# second stream is empty / partial / complete.

@st.composite
def sink_case(draw, tier="quick"):
    spec = draw(hist.history_spec(n_min=2, n_max=5, merges=True, ghosts=False,
                                  odd_names=False, bb_safe=True, ops_max=2,
                                  base_max=3))
    revs = spec["revs"]
    models = hist.models_of(spec)
    g = hist.graph_of(spec, ghosts=False)
    ids = [r["id"] for r in revs]
    p = draw(st.sampled_from(ids))
    parents = [p]
    others = [r for r in ids if r not in gm.ancestry(g, p) and
              p not in gm.ancestry(g, r)]
    if others and draw(st.booleans()):
        parents.append(draw(st.sampled_from(others)))
    m = models[p]
    nonroot = sorted(f for f in m if f != tm.ROOT_ID)
    ops = []
    if nonroot:
        # a rename changes both CHK maps and keeps the text shared with the
        # parent
        f = draw(st.sampled_from(nonroot))
        ops.append(["rename", f, tm.ROOT_ID, "zz"])
    if draw(st.booleans()) or not ops:
        ops.append(["add", "new-id", tm.ROOT_ID, "zn", "file",
                    draw(tm.text_strategy()), False])
    if len(nonroot) > 1 and draw(st.booleans()):
        victim = [x for x in nonroot if not ops or x != ops[0][1]]
        victim = [x for x in victim if not (
            ops and ops[0][0] == "rename" and
            ops[0][1] in tm.descendants(m, x))]
        if victim:
            ops.append(["delete", draw(st.sampled_from(victim))])
    i = len(revs)
    revs.append({"id": "r%d" % i, "parents": parents, "ghosts": [],
                 "ops": ops, "msg": "m%d" % i, "ts": bz.T0 + 100 * i, "tz": 0,
                 "committer": revs[-1]["committer"], "props": {}})
    # ("partial" = refill only one of two missing parent inventories is not
    # drawn: breezy accepts it by design when the texts the revision
    # introduces are present, although one parent inventory stays absent)
    second = draw(st.sampled_from(["empty", "empty", "full"]))
    return {"spec": spec, "second": second}


def run_sink(case, env):
    from breezy import branch as _b
    from breezy import errors
    from breezy import repository as _r
    from breezy.bzr import vf_search
    from breezy.bzr.pack_repo import BzrCheckError as _FCheck
    spec = case["spec"]
    d = env.newdir("c08k")
    new = spec["revs"][-1]
    rid, parents = new["id"], new["parents"]
    graph = hist.graph_of(spec, ghosts=False)
    models = hist.models_of(spec)
    full = bz.init_branch(os.path.join(d, "full"), "2a")
    hist.build_bb(spec, full)
    base = bz.init_branch(os.path.join(d, "base"), "2a")
    for p in parents:
        base.repository.fetch(full.repository, revision_id=bz.enc(p))
    sb = bz.init_branch(os.path.join(d, "stacked"), "2a")
    sb.set_stacked_on_url("../base")
    repo = _b.Branch.open(os.path.join(d, "stacked")).repository
    src_repo = full.repository
    fmt = src_repo._format
    outcome = None
    with src_repo.lock_read():
        search = vf_search.SearchResult(
            {bz.enc(rid)}, {bz.enc(p) for p in parents}, 1, {bz.enc(rid)})
        source = src_repo._get_source(repo._format)
        sink = repo._get_sink()
        tokens, missing = sink.insert_stream(source.get_stream(search), fmt, [])
        if not missing:
            outcome = "first-pass-complete"
        else:
            inv_missing = sorted(k for k in missing if k[0] == "inventories")
            if case["second"] == "empty":
                stream2 = iter([])
            elif case["second"] == "partial":
                stream2 = source.get_stream_for_missing_keys(
                    set(inv_missing[:1]) if len(inv_missing) > 1 else set())
            else:
                stream2 = source.get_stream_for_missing_keys(set(missing))
            try:
                tokens2, missing2 = sink.insert_stream(stream2, fmt, tokens)
            except _FCheck:
                outcome = "refused"
            else:
                if missing2 or tokens2:
                    # still suspended: give the write group up
                    with repo.lock_write():
                        repo.resume_write_group(tokens2)
                        repo.abort_write_group()
                    outcome = "still-missing"
                else:
                    outcome = "accepted"
    alone = _r.Repository.open(os.path.join(d, "stacked"))
    with alone.lock_read():
        local = {cf._s(k[0]) for k in alone.revisions.keys()}
        invs = {cf._s(k[0]) for k in alone.inventories.keys()}
    if outcome in ("refused", "still-missing"):
        check(rid not in local,
              "C08/sink-" + outcome + "-write-group-left-the-revision-behind",
              sorted(local))
    label = "sink:%s:%s:%dp" % (case["second"], outcome, len(parents))
    if rid in local:
        if all(p in invs for p in parents):
            cf.stacking_invariant("C08", os.path.join(d, "stacked"), graph,
                                  models, tag="sink")
        else:
            # no parent inventory: acceptable only if the revision can be
            # rebuilt completely from the stacked repository alone
            try:
                with alone.lock_read():
                    got = bz.snapshot_tree(alone.revision_tree(bz.enc(rid)))
            except (errors.NoSuchRevision, _FNotPresent(), _FNoSuch(),
                    _NoSuchFile()) as e:
                check(False, "C08/sink-accepted-revision-without-parent-"
                      "inventory-and-not-self-sufficient",
                      {"second": case["second"], "error": repr(e)[:300]})
            check(got == bz.model_snapshot(models[rid]),
                  "C08/sink-accepted-revision-reads-wrong-tree", rid)
        b = _b.Branch.open(os.path.join(d, "stacked"))
        with b.lock_read():
            got = bz.snapshot_tree(b.repository.revision_tree(bz.enc(rid)))
        check(got == bz.model_snapshot(models[rid]),
              "C08/sink-revision-tree-differs-from-model", rid)
    if outcome == "refused":
        return rejected("incomplete resumed stream refused at "
                        "commit_write_group", label=label)
    return ok(label)


def _NoSuchFile():
    from dromedary.errors import NoSuchFile
    return NoSuchFile


def _FNotPresent():
    from bzrformats.errors import RevisionNotPresent
    return RevisionNotPresent


def _FNoSuch():
    try:
        from bzrformats.errors import NoSuchRevision
        return NoSuchRevision
    except ImportError:
        from breezy import errors
        return errors.NoSuchRevision


def kinds(tier):
    return [
        Kind("local", run, strategy=stack_case(tier, smart=False),
             examples={"quick": 240, "thorough": 8000}),
        Kind("smart", run, strategy=stack_case(tier, smart=True),
             examples={"quick": 100, "thorough": 4000},
             setup=cf.smart_setup, teardown=cf.smart_teardown),
        Kind("sink-resume", run_sink, strategy=sink_case(tier),
             examples={"quick": 120, "thorough": 3000}),
    ]
