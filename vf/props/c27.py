"""C27 - lock operations leave recoverable state at every crash point; a failed
acquisition never leaves the lock held by the failing process."""

import os
import shutil

from hypothesis import strategies as st

from vf.api import Kind, check, ok, trivial, violation
from vf.lib import c26_seam as ls
from vf.seam import ft

PROPERTY = "C27"
LEVEL = "fault_enumeration"
TECHNIQUE = ("transport-seam crash-point and single-fault enumeration of every "
             "LockDir operation from every pre-state; recovery by a fresh "
             "LockDir as oracle")
RULE = ("enumerated: pre-state {free, live other, dead other, empty info, "
        "unparsable info, missing lock directory} x operation {attempt_lock, "
        "wait_lock, attempt+unlock, unlock, peek+force_break(_corrupt), "
        "break_lock} (x locks.steal_dead for a dead holder) x {local POSIX "
        "rename, strict rename that refuses an existing destination as memory "
        "/ sftp / smart transports do} x every crash point "
        "(before / after each mutating transport operation, and 4 truncation "
        "lengths of the non-atomic info write) and x every single injected "
        "error (6 TransportError/PathError classes) at every transport "
        "operation including reads, x every error at a mutating operation "
        "followed by a crash at every later operation of the error path "
        "(2 error classes quick, 6 thorough); thorough adds all double "
        "faults; generated: multi-operation programs of the "
        "subject process interleaved with steps of another live process, with "
        "1-2 injected crashes/errors. Non-trivial: the crash or error fired "
        "with at least one transport operation executed before it and the "
        "operation sequence not yet complete. Distinct by construction "
        "(enumeration) / by case hash.")
ASSUMPTIONS = [
    "a crash loses nothing already handed to the transport and performs "
    "nothing later (local filesystem semantics: mkdir/rename/delete/rmdir "
    "atomic, put_bytes_non_atomic may leave any prefix)",
    "an injected transport error means the operation had no effect",
]
LEVEL_TEXT = ("Every prefix of the transport operations of each lock operation "
              "from each pre-state is materialised on disk (including truncated "
              "info files) and a fresh LockDir must find the lock free or held "
              "with holder information, break it explicitly if held, acquire "
              "it, and a second process must be able to break and re-acquire "
              "once more over the leftovers; every single error at every "
              "operation is injected and the surviving object's view is "
              "compared with the disk. The single-fault space is covered "
              "completely.")
LEVEL_NOTE = ("Trusts the seam's crash model (operation atomicity of the local "
              "transport, arbitrary prefix for the non-atomic put) and that an "
              "error reported by the transport means no effect; errors reported "
              "after a performed operation are not modelled.")
REGISTERED = True
NONTRIVIAL_FLOOR = {"quick": 1500, "thorough": 10000}

PRES = ("free", "live", "dead", "empty", "corrupt", "missing")
OPS = ("attempt", "wait", "lock_unlock", "unlock", "break", "break_ui")
CORRUPT = b"\xff\x00: ["
EXCS = ("TransportError", "NoSuchFile", "FileExists", "PermissionDenied",
        "DirectoryNotEmpty", "ResourceBusy")


def _exc(name):
    from dromedary import errors as de
    return getattr(de, name)


def _lock_errors():
    from breezy import errors
    from dromedary import errors as de
    return (errors.LockError, de.TransportError)


# ------------------------------------------------------------------ world

class World:
    """One lock directory, the subject process' LockDir `l` on the seam
    transport and helpers to act as other processes on the plain transport."""

    def __init__(self, root, pre, steal, own_first, strict=False):
        from breezy import lockdir, transport as _t
        self.root = root
        self.strict = strict
        self.host, self.user = ls.our_identity()
        # strict: renaming onto an existing directory fails (memory, sftp,
        # smart ... transports); otherwise local POSIX semantics.  Other
        # processes see the same semantics (seam off = not counted/faulted).
        self.t = ls.strict_transport(root) if strict else \
            ft.get_transport(root)
        self.plain = ls.strict_transport(root) if strict else \
            _t.get_transport(root)
        self.lockdir = lockdir
        self.l = self.mk(self.t, steal)
        self.steal = steal
        self.o = None
        self.written = set()      # every nonce one of our LockDirs wrote
        with ls.seam_off():
            if pre != "missing" or own_first:
                os.makedirs(os.path.join(root, "lock"))
            if own_first:
                # the subject holds the lock, then the pre-state happens to it
                self.l.attempt_lock()
                if pre != "free":
                    shutil.rmtree(os.path.join(root, "lock", "held"))
            self.apply_pre(pre)
            if pre == "missing" and own_first:
                shutil.rmtree(os.path.join(root, "lock"))
        self.pre_content = ls.held_content(root)

    def mk(self, t, steal=False):
        l = self.lockdir.LockDir(t, "lock")
        stack = ls.steal_stack(steal)
        l.get_config = lambda: stack
        return l

    def apply_pre(self, pre):
        if pre == "live":
            ls.write_held(self.root, ls.info_bytes(
                self.host, self.user, ls.ALIVE_PID, "livenonce0livenonce0"))
        elif pre == "dead":
            ls.write_held(self.root, ls.info_bytes(
                self.host, self.user, ls.DEAD_PID, "deadnonce0deadnonce0"))
        elif pre == "empty":
            ls.write_held(self.root, b"")
        elif pre == "corrupt":
            ls.write_held(self.root, CORRUPT)

    # ---- steps of the subject process; return (kind, raised) -------------
    def step(self, name):
        from breezy import errors
        l = self.l
        if name == "attempt":
            if l.is_held:
                return None
            return self._call("acquire", l.attempt_lock)
        if name == "wait":
            if l.is_held:
                return None
            return self._call("acquire", lambda: l.wait_lock(
                timeout=10, poll=1, max_attempts=2))
        if name == "unlock":
            if not l.is_held:
                return None
            return self._call("release", l.unlock)
        if name == "confirm":
            if not l.is_held:
                return None
            return self._call("other", l.confirm)
        if name == "break":
            if l.is_held:
                return None

            def brk():
                try:
                    info = l.peek()
                except errors.LockCorrupt as e:
                    l.force_break_corrupt(e.file_data)
                    return
                if info is not None:
                    l.force_break(info)
            return self._call("other", brk)
        if name == "break_ui":
            if l.is_held:
                return None
            return self._call("other", l.break_lock)
        raise AssertionError(name)

    def _call(self, kind, fn):
        c = ft.CURRENT
        before_fired = len(c.fired_at) if c is not None else 0
        ours_before = (ls.disk_nonce(self.root) is not None and
                       ls.disk_nonce(self.root) == getattr(self.l, "nonce", 0))
        raised = None
        try:
            fn()
        except _lock_errors() as e:
            raised = e
        finally:
            self.written.add(getattr(self.l, "nonce", None))
        fired = c is not None and len(c.fired_at) > before_fired
        return {"kind": kind, "raised": raised, "fired": fired,
                "ours_before": ours_before}

    # ---- steps of another, live process (never counted or faulted) -------
    def other(self, name):
        from breezy import errors
        with ls.seam_off():
            if self.o is None:
                self.o = self.mk(self.plain)
            o = self.o
            try:
                if name == "o_attempt" and not o.is_held:
                    o.attempt_lock()
                elif name == "o_unlock" and o.is_held:
                    o.unlock()
                elif name == "o_break" and not o.is_held:
                    try:
                        info = o.peek()
                    except errors.LockCorrupt as e:
                        o.force_break_corrupt(e.file_data)
                    else:
                        if info is not None:
                            o.force_break(info)
            except _lock_errors():
                pass
            self.written.add(getattr(o, "nonce", None))


def op_steps(op):
    return {"attempt": ["attempt"], "wait": ["wait"],
            "lock_unlock": ["attempt", "unlock"], "unlock": ["unlock"],
            "break": ["break"], "break_ui": ["break_ui"]}[op]


# ----------------------------------------------------------------- oracles

def alive_oracle(w, res, ctx):
    """Process alive after an operation that saw an injected error."""
    l = w.l
    held = ls.held_content(w.root)
    dn = ls.parse_nonce(held) if held else None
    mine = getattr(l, "nonce", None)
    if res["kind"] == "acquire" and res["raised"] is not None:
        check(not l.is_held, "C27/failed-acquisition-object-reports-held",
              [ctx, repr(res["raised"])])
        if mine is not None and dn == mine:
            c = ft.CURRENT
            kind = "contention"
            if res["fired"]:
                i, at = c.fired_at[-1]
                prev = c.log[i - 1][1] if i > 0 else "start"
                kind = "error-at-%s-after-%s" % (at, prev)
            return violation(
                "C27/failed-acquisition-leaves-lock-held-by-failing-process:"
                + kind, [ctx, repr(res["raised"])[:300]])
    if res["kind"] == "release" and res["fired"]:
        if res["ours_before"] and l.is_held and held is None:
            return violation(
                "C27/failed-unlock-object-still-held-but-disk-lock-gone",
                [ctx, repr(res["raised"])])
    return None


def _try(sig, ctx, fn):
    """A recovery step of the fresh process: documented lock/transport errors
    mean 'not recoverable'; anything else propagates to the runner."""
    try:
        return fn()
    except _lock_errors() as e:
        check(False, sig, [ctx, "%s: %s" % (type(e).__name__, str(e)[:300])])


def recover(root, how, ctx, w):
    """What another process finds after the subject stopped."""
    from breezy import errors, lockdir, transport as _t
    lockp = os.path.join(root, "lock")
    ctx = ctx + [sorted(os.listdir(lockp)) if os.path.isdir(lockp) else None]
    held = ls.held_content(root)
    # free, or held with holder information
    check(held is not False, "C27/held-directory-without-info-file",
          [ctx, sorted(os.listdir(os.path.join(lockp, "held")))
           if held is False else None])
    if held is not None and held != w.pre_content:
        # the operation put this lock there: its info must be complete
        n = ls.parse_nonce(held)
        check(n is not None and n in w.written,
              "C27/held-with-unreadable-holder-info", [ctx, ls_b(held)])
    t = ls.strict_transport(root) if w.strict else _t.get_transport(root)
    f = lockdir.LockDir(t, "lock")
    state = "free"
    try:
        info = f.peek()
    except errors.LockCorrupt as e:
        state = "corrupt"
        data = e.file_data
        if how == "ui":
            _try("C27/corrupt-lock-not-breakable", ctx, f.break_lock)
        else:
            _try("C27/corrupt-lock-not-breakable", ctx,
                 lambda: f.force_break_corrupt(data))
    else:
        check(info is None or isinstance(info, lockdir.LockHeldInfo),
              "C27/peek-returns-neither-none-nor-info", [ctx, repr(info)])
        if info is not None:
            state = "held"
            if how == "ui":
                _try("C27/held-lock-not-breakable", ctx, f.break_lock)
            else:
                _try("C27/held-lock-not-breakable", ctx,
                     lambda: f.force_break(info))
    if state != "free":
        check(_try("C27/peek-fails-after-break", ctx, f.peek) is None,
              "C27/lock-still-held-after-explicit-break", [ctx, state])
    _try("C27/lock-not-acquirable-" + ("directly" if state == "free"
                                       else "after-break"), ctx,
         f.attempt_lock)
    check(f.is_held and ls.disk_nonce(root) == f.nonce,
          "C27/recovering-process-does-not-hold-lock", [ctx, state])
    # that process dies holding it; the next one goes through the same
    # motions over whatever is lying around by now
    g = lockdir.LockDir(t, "lock")
    info = _try("C27/peek-fails-second-round", ctx, g.peek)
    check(info is not None, "C27/second-round-sees-no-holder", ctx)
    _try("C27/leftovers-prevent-break", ctx, lambda: g.force_break(info))
    _try("C27/leftovers-prevent-acquisition", ctx, g.attempt_lock)
    g.unlock()
    check(not g.is_held and ls.held_content(root) is None,
          "C27/lock-not-released-after-recovery", ctx)
    return state


def ls_b(b):
    return b.decode("latin-1") if isinstance(b, bytes) else b


# --------------------------------------------------------------------- run

def build_plan(case):
    plan = {}
    for a in case.get("plan", []):
        if a[0] == "crash":
            plan[a[1]] = ("crash", a[2], a[3])
        else:
            plan[a[1]] = ("fault", _exc(a[2]))
    return plan


def execute(case, root, record_only=False):
    """Runs the case's program under its plan. -> (world, controller, results,
    early Outcome or None)."""
    steps = case["steps"]
    own_first = bool(case.get("own_first"))
    w = World(root, case["pre"], bool(case.get("steal")), own_first,
              bool(case.get("strict")))
    c = ls.PlanController(
        plan={} if record_only else build_plan(case),
        count_reads=bool(case.get("reads")))
    results = []
    bad = None
    with ls.controller(c):
        try:
            for s in steps:
                if s.startswith("o_"):
                    w.other(s)
                    continue
                r = w.step(s)
                if r is None:
                    continue
                results.append((s, r))
                if c.dead:
                    break
                if not record_only:
                    bad = alive_oracle(w, r, [case, s])
                    if bad is not None:
                        break
        except ft.Crash:
            pass
    return w, c, results, bad


def run(case, env):
    root = env.newdir("c27")
    with ls.deterministic():
        w, c, results, bad = execute(case, root)
        if bad is not None:
            return bad
        n = c.count
        # state left behind: at the crash, or when the process exits
        ctx = [case, [x[1:3] for x in c.log][-12:]]
        alt = root + ".alt"
        shutil.copytree(root, alt)
        try:
            s1 = recover(root, "force", ctx + ["force"], w)
            recover(alt, "ui", ctx + ["ui"], w)
        finally:
            shutil.rmtree(alt, ignore_errors=True)
    if not c.fired_at:
        return trivial()
    first = c.fired_at[0][0]
    kinds = sorted({a[0] for a in case["plan"]})
    crash = [a for a in case["plan"] if a[0] == "crash"]
    if crash and not c.dead:
        return trivial()
    if first == 0 and c.dead and len(c.fired_at) == 1 and \
            crash[0][2] == "before":
        return trivial()          # nothing happened at all
    if n < 2:
        return trivial()
    total = case.get("n")
    if crash and total is not None and crash[0][1] == total - 1 and \
            crash[0][2] == "after" and len(c.fired_at) == 1:
        return trivial()          # the operation sequence completed
    if first == 0 and not crash:
        # an error at the very first operation: nothing precedes it
        return ok("first-op-%s:%s" % ("+".join(kinds), s1))
    return ok("%s:%s:%s:%s" % ("+".join(kinds), case.get("op", "program"),
                               case["pre"], s1))


# -------------------------------------------------------------- enumeration

def _scratch():
    from vf import env as venv
    d = os.path.join(venv.scratch_root(), "c27enum")
    shutil.rmtree(d, ignore_errors=True)
    os.makedirs(d)
    return d


def base_cases():
    for pre in PRES:
        for op in OPS:
            for steal in ((False, True) if pre == "dead" and op in (
                    "attempt", "wait", "lock_unlock") else (False,)):
                for strict in (False, True):
                    yield {"pre": pre, "op": op, "steal": steal,
                           "strict": strict, "steps": op_steps(op),
                           "own_first": op == "unlock"}


def record(base, reads):
    d = _scratch()
    try:
        case = dict(base, reads=reads, plan=[])
        with ls.deterministic():
            w, c, results, bad = execute(case, d, record_only=True)
        return list(c.log)
    finally:
        shutil.rmtree(d, ignore_errors=True)


def enum_crash(tier):
    for base in base_cases():
        log = record(base, False)
        n = len(log)
        for idx, name, path, size in log:
            whens = [("before", None), ("after", None)]
            if name in ft.NON_ATOMIC and size:
                whens += [("partial", p) for p in sorted(
                    {0, 1, size // 2, size - 1})]
            for when, part in whens:
                yield dict(base, reads=False, n=n,
                           plan=[["crash", idx, when, part]])


def enum_fault(tier):
    for base in base_cases():
        log = record(base, True)
        n = len(log)
        yield dict(base, reads=True, n=n, plan=[])
        for idx, name, path, size in log:
            for ex in EXCS:
                yield dict(base, reads=True, n=n, plan=[["fault", idx, ex]])


FIRST_FAULTS = {"quick": ("PermissionDenied", "ResourceBusy"),
                "thorough": EXCS}


def enum_fault_then_crash(tier):
    """An error at a mutating operation sends the code down its error
    handling / fallback path; the process then dies at every later mutating
    operation of that path (before / after it).  Error paths that do their
    own multi-step clean-up are only reachable like this."""
    for base in base_cases():
        log = record(base, False)
        n = len(log)
        for i in range(n):
            for ex in FIRST_FAULTS[tier]:
                for j in range(i + 1, n + 4):
                    for when in ("before", "after"):
                        yield dict(base, reads=False, plan=[
                            ["fault", i, ex], ["crash", j, when, None]])


def enum_double(tier):
    """Thorough: every pair of errors, and every error followed by a crash.
    The second index ranges over the operations of the *faulted* run, which
    differ from the clean run, so it is bounded by clean length + 8."""
    for base in base_cases():
        log = record(base, True)
        n = len(log)
        for i in range(n):
            for ex in EXCS:
                for j in range(i + 1, n + 8):
                    for ex2 in ("TransportError", "NoSuchFile"):
                        yield dict(base, reads=True, plan=[
                            ["fault", i, ex], ["fault", j, ex2]])


# ---------------------------------------------------------------- generated

L_STEPS = ["attempt", "wait", "unlock", "confirm", "break", "break_ui"]
O_STEPS = ["o_attempt", "o_unlock", "o_break"]


@st.composite
def gen_program(draw):
    pre = draw(st.sampled_from(PRES))
    own_first = draw(st.booleans())
    steps = draw(st.lists(st.sampled_from(L_STEPS * 2 + O_STEPS), min_size=2,
                          max_size=7))
    reads = draw(st.booleans())
    nplan = draw(st.integers(1, 2))
    idxs = sorted(draw(st.sets(st.integers(0, 6 * len(steps)),
                               min_size=nplan, max_size=nplan)))
    plan = []
    for j, i in enumerate(idxs):
        last = j == len(idxs) - 1
        if last and draw(st.booleans()):
            when = draw(st.sampled_from(["before", "after", "partial"]))
            plan.append(["crash", i, when,
                         draw(st.integers(0, 140)) if when == "partial"
                         else None])
        else:
            plan.append(["fault", i, draw(st.sampled_from(EXCS))])
    return {"pre": pre, "steal": draw(st.booleans()), "steps": steps,
            "own_first": own_first, "reads": reads, "plan": plan,
            "strict": draw(st.booleans())}


def kinds(tier):
    ks = [
        Kind("crash-points", run, enumerate=enum_crash, exhaustive=True,
             hash_cases=False),
        Kind("single-faults", run, enumerate=enum_fault, exhaustive=True,
             hash_cases=False),
        Kind("fault-then-crash", run, enumerate=enum_fault_then_crash,
             exhaustive=True, hash_cases=False),
        Kind("programs", run, strategy=gen_program(),
             examples={"quick": 1500, "thorough": 40000}),
    ]
    if tier == "thorough":
        ks.insert(2, Kind("double-faults", run, enumerate=enum_double,
                          exhaustive=True, hash_cases=False))
    return ks
