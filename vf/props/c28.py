"""C28 - reentrant locking acquires and releases the physical lock exactly
once; refused calls (write while read-locked, unlock at 0, wrong token) change
nothing."""

import itertools

from hypothesis import strategies as st

from vf.api import Kind, ok, trivial
from vf.lib import c26_seam as ls
from vf.lib import c28_locks as L

PROPERTY = "C28"
LEVEL = "exploration"
TECHNIQUE = ("exhaustive enumeration of lock/unlock sequences on the reentrant "
             "wrappers against a (mode, count) model with a spy physical lock; "
             "model-based sequences on real trees, branches and repositories "
             "with the LockDir calls and the lock directories observed")
RULE = ("enumerated: every sequence over {lock_read, lock_write, unlock} of "
        "length <= 7 (quick) / <= 9 (thorough) on CountedLock(spy) and on "
        "LockableFiles(spy lock), each followed by unlocking down to zero and "
        "one refused extra unlock; generated: sequences <= 12 over the full "
        "call alphabet (tokens right/wrong, break_lock, is_locked, physical "
        "status, leave/dont_leave_in_place) on the same wrappers; two "
        "LockableFiles sharing one real LockDir through tokens; calls on a "
        "working tree, its branch and its repository (knit, pack-0.92, 1.9, 2a; "
        "stacked and unstacked) in any interleaving. Non-trivial: the count "
        "reaches >= 2 and returns to 0, or a call is refused. Distinct by "
        "construction (enumeration) / by case hash.")
ASSUMPTIONS = [
    "every hold taken through one handle is released through the same handle "
    "(a caller never unlocks a branch that only its tree locked)",
    "the private lock counters (_lock_count, _write_lock_count) are read to "
    "make the count observable after each call",
]
LEVEL_TEXT = ("The counting logic of CountedLock and LockableFiles is a small "
              "state machine: all 3^1..3^7 (quick) / 3^9 (thorough) call "
              "sequences are executed against a spy physical lock and compared "
              "call by call with a (mode, count) model, which decides the "
              "property for those wrappers up to that length. Real "
              "tree/branch/repository objects and token sharing through a real "
              "LockDir are sampled with model-generated sequences.")
LEVEL_NOTE = ("Beyond length 9 and on real objects the check is a sample. The "
              "model of which object locks which (tree -> branch -> repository "
              "-> fallbacks) is taken from the class documentation.")
REGISTERED = True
NONTRIVIAL_FLOOR = {"quick": 2000, "thorough": 20000}

MAXLEN = {"quick": 7, "thorough": 9}


# ---------------------------------------------------------------- wrappers

def run_block(case, env):
    """All sequences over r/w/u that start with case['prefix'] (exactly that
    sequence when 'exact'), up to case['maxlen']."""
    target = case["target"]
    prefix = case["prefix"]
    n = nt = 0
    if case.get("exact"):
        tails = [()]
    else:
        tails = itertools.chain.from_iterable(
            itertools.product("rwu", repeat=k)
            for k in range(0, case["maxlen"] - len(prefix) + 1))
    for tail in tails:
        seq = prefix + "".join(tail)
        nontrivial, _label = L.run_wrapper_seq(target, seq)
        n += 1
        nt += 1 if nontrivial else 0
    return ok("%s-rwu-sequences" % target, n=n, nt=nt) if nt else trivial()


def enum_blocks(tier):
    maxlen = MAXLEN[tier]
    plen = 3
    for target in ("counted", "lockable"):
        for k in range(1, plen):
            for p in itertools.product("rwu", repeat=k):
                yield {"target": target, "prefix": "".join(p), "exact": True,
                       "maxlen": maxlen}
        for p in itertools.product("rwu", repeat=plen):
            yield {"target": target, "prefix": "".join(p), "maxlen": maxlen}


def run_wrapper(case, env):
    nontrivial, label = L.run_wrapper_seq(case["target"], case["ops"])
    if not nontrivial:
        return trivial()
    return ok("%s:%s" % (case["target"], label))


@st.composite
def gen_wrapper(draw):
    target = draw(st.sampled_from(["counted", "lockable"]))
    alphabet = ["r", "w", "u"] * 4 + ["wt", "wx", "q", "p", "b", "uf", "uf"]
    if target == "lockable":
        alphabet += ["L", "D"]
    ops = draw(st.lists(st.sampled_from(alphabet), min_size=3, max_size=12))
    return {"target": target, "ops": ops}


# ------------------------------------------------- tokens through a LockDir

def run_tokens(case, env):
    with ls.deterministic():
        w = L.TokenWorld()
        for i, (who, op, arg) in enumerate(case["ops"]):
            L.token_step(w, who, op, arg, [case["ops"], i])
        m = w.m
        refused, interesting = m.refused, sorted(m.interesting)
        # release everything; the physical lock must end up free
        for n in "ab":
            if m.o[n]["dead"]:
                continue
            if m.o[n]["mode"] == "w":
                L.token_step(w, n, "dont", None, [case["ops"], "drain"])
            while m.o[n]["count"] > 0 and not m.o[n]["dead"]:
                L.token_step(w, n, "u", None, [case["ops"], "drain"])
    if not interesting and not refused:
        return trivial()
    return ok("tokens:" + ("+".join(interesting) if interesting
                           else "refused"))


@st.composite
def gen_tokens(draw):
    m = L.TokenModel()
    ops = []
    n = draw(st.integers(3, 14))
    for _ in range(n):
        who = draw(st.sampled_from("ab"))
        cands = [o for o in ("r", "w", "w", "wtok", "wtok", "u", "u", "u",
                             "leave", "dont", "q", "p")
                 if m.applicable(who, o)]
        if not cands:
            continue
        op = draw(st.sampled_from(cands))
        arg = None
        if op == "wtok":
            # mostly the token that is on disk, sometimes stale or wrong
            choices = [-1] + list(range(m.ntokens))
            if m.disk is not None:
                choices += [m.disk] * 4
            arg = draw(st.sampled_from(choices))
        m.step(who, op, arg)
        ops.append([who, op, arg])
    return {"ops": ops}


# ------------------------------------------------ tree / branch / repository

def run_graph(case, env):
    root = env.newdir("c28")
    g = L.Graph(root, case["fmt"], case["stacked"])
    m = g.m
    cross = bool(case.get("cross"))
    try:
        for i, (h, op) in enumerate(case["ops"]):
            L.graph_step(g, h, op, [case, i], allow_cross=cross)
        refused, returned, crossn = m.refused, m.returned, m.cross
        wg = m.wg_unlocks
        # drain: everything taken is given back through its own handle, then
        # one more unlock on each handle is refused
        if m.wg:
            L.graph_step(g, "R", "awg", [case, "drain"])
        for h in "TBR":
            while m.own[h] > 0:
                L.graph_step(g, h, "unlock", [case, "drain", h])
        returned = m.returned
        for h in "TBR":
            L.graph_step(g, h, "unlock", [case, "drain-extra", h])
    finally:
        _release(g)
    kind = "%s%s" % (case["fmt"], "-stacked" if m.stacked else "")
    if crossn:
        return ok("objects:%s:refused-with-lower-object-locked" % kind)
    if wg:
        return ok("objects:%s:unlock-in-write-group" % kind)
    if refused and returned:
        return ok("objects:%s:nested+refused" % kind)
    if refused:
        return ok("objects:%s:refused" % kind)
    if returned:
        return ok("objects:%s:nested-back-to-zero" % kind)
    return trivial()


def _release(g):
    """Harness hygiene after a failed case: no OS lock may outlive it."""
    from breezy import errors
    for h in "TBR":
        o = g.h[h]
        for _ in range(40):
            if not o.is_locked():
                break
            try:
                o.unlock()
            except errors.LockError:
                break


@st.composite
def gen_graph(draw):
    fmt = draw(st.sampled_from(L.FORMATS))
    stacked = fmt in L.STACKABLE and draw(st.booleans())
    cross = draw(st.integers(0, 9)) == 0
    wgs = draw(st.integers(0, 2)) == 0
    m = L.GModel(fmt != "knit", stacked)
    ops = []
    n = draw(st.integers(3, 12))
    menu = (["lock_read"] * 3 + ["lock_write"] * 3 + ["lock_tree_write"] +
            ["unlock"] * 6 + ["q", "p"] + (["wg"] * 4 + ["awg"] if wgs else []))
    for _ in range(n):
        h = draw(st.sampled_from("TTBBR"))
        cands = [o for o in menu if m.applicable(h, o, cross)]
        op = draw(st.sampled_from(cands))
        m.step(h, op)
        ops.append([h, op])
    return {"fmt": fmt, "stacked": stacked, "cross": cross, "ops": ops}


def kinds(tier):
    return [
        Kind("enum-rwu", run_block, enumerate=enum_blocks, exhaustive=True,
             hash_cases=False),
        Kind("wrapper-calls", run_wrapper, strategy=gen_wrapper(),
             examples={"quick": 3000, "thorough": 120000}),
        Kind("lockdir-tokens", run_tokens, strategy=gen_tokens(),
             examples={"quick": 3000, "thorough": 40000}),
        Kind("objects", run_graph, strategy=gen_graph(),
             examples={"quick": 4000, "thorough": 40000}),
    ]
