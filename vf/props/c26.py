"""C26 - directory locks provide mutual exclusion under every interleaving of
the transport operations of attempt / confirm / unlock / break / steal-dead."""

import os

from hypothesis import strategies as st

from vf.api import Kind, check, ok, trivial, violation
from vf.lib import c26_seam as ls
from vf.seam import ft

PROPERTY = "C26"
LEVEL = "exploration"
TECHNIQUE = ("cooperative scheduling of 2-3 lockers at every transport "
             "operation (thread hand-off through the transport seam), ghost "
             "variables for who removed whose lock, invariant checked after "
             "every step")
RULE = ("generated: initial lock state {free, held by one of the actors, held "
        "by a fabricated other process with host in {ours, other, localhost} x "
        "user in {ours, other} x pid in {dead, alive, none}} x 2-3 actors with "
        "programs over {attempt_lock, wait_lock, confirm, unlock, "
        "peek+force_break, force_break with the info seen at the start, "
        "break_lock} and locks.steal_dead on/off x a schedule (list of small "
        "ints consumed by the scheduler at every transport operation, reads "
        "and sleeps included) x normal / move-inside rename semantics; "
        "enumerated: is_lock_holder_known_dead over host x user x pid. "
        "Non-trivial: another actor's operation runs between a breaker's peek "
        "and its rename, or two acquisition renames are adjacent, or a steal "
        "or a break of a live actor's lock happens. Distinct by case hash.")
ASSUMPTIONS = [
    "actors are threads of one process that only interleave at transport "
    "operations (no shared LockDir objects); each transport operation is "
    "atomic (local filesystem)",
    "pid 1 is alive and pid 0x7ffffff0 does not exist",
]
LEVEL_TEXT = ("Schedules are sampled, not enumerated: every generated schedule "
              "is executed deterministically and the holder invariant is "
              "evaluated after every single transport operation with exact "
              "knowledge of which rename removed which holder's lock.")
LEVEL_NOTE = ("Sampling of a very large schedule space (3 actors, ~10-40 "
              "operations); the scheduler serialises operations, so only "
              "sequentially consistent interleavings are explored.")
REGISTERED = True
NONTRIVIAL_FLOOR = {"quick": 300, "thorough": 20000}

HOSTS = ("ours", "other", "localhost")
USERS = ("ours", "other")
PIDS = ("dead", "alive", "none")


def fab_info(kind):
    """(bytes, known_dead) of a fabricated other process' info file."""
    host_o, user_o = ls.our_identity()
    host = {"ours": host_o, "other": host_o + "-elsewhere",
            "localhost": "localhost"}[kind["host"]]
    user = {"ours": user_o, "other": user_o + "-someone"}[kind["user"]]
    pid = {"dead": ls.DEAD_PID, "alive": ls.ALIVE_PID, "none": None,
           "own": os.getpid()}[kind["pid"]]
    dead = (kind["host"] == "ours" and host_o != "localhost" and
            kind["user"] == "ours" and kind["pid"] == "dead")
    return ls.info_bytes(host, user, pid, "fabricated0fabricated"), dead


# ------------------------------------------------------- known-dead table

def run_table(case, env):
    from breezy.lockdir import LockHeldInfo
    data, dead = fab_info(case)
    got = LockHeldInfo.from_info_file_bytes(data).is_lock_holder_known_dead()
    check(got == dead, "C26/known-dead-%s" % (
        "false-positive" if got else "false-negative"), [case, got])
    return ok("known-dead-table:%s" % ("dead" if dead else "not-dead"))


def enum_table(tier):
    for h in HOSTS:
        for u in USERS:
            for p in PIDS + ("own",):
                yield {"host": h, "user": u, "pid": p}


# --------------------------------------------------------------- schedules

class World:
    def __init__(self, root, case):
        from breezy import lockdir
        self.lockdir = lockdir
        self.root = root
        self.case = case
        os.makedirs(os.path.join(root, "lock"))
        self.names = [chr(ord("A") + i) for i in range(len(case["actors"]))]
        self.locks = {}
        self.steal = {}
        for n, a in zip(self.names, case["actors"]):
            l = lockdir.LockDir(ls.lock_transport(root), "lock")
            stack = ls.steal_stack(bool(a.get("steal")))
            l.get_config = lambda stack=stack: stack
            self._spy_force_break(n, l)
            self.locks[n] = l
            self.steal[n] = bool(a.get("steal"))
        # ghost variables
        self.examined = {}       # actor -> nonce its running force_break got
        self.in_break = {}       # actor -> bool
        self.break_result = {}   # (actor, k) -> "returned" | exception name
        self.break_calls = {n: 0 for n in self.names}
        self.peeked = {}         # actor -> nonce seen by its last read of held
        self.cur_op = {}         # actor -> program op it is executing
        self.broken = set()      # nonces deliberately broken
        self.removed = []        # (actor, nonce, kind, actor's own nonce, k)
        self.fab = {}            # fabricated nonce -> known dead?
        self.viol = []           # (signature, detail, (breaker, k) or None)
        self.oplog = []          # executed operations (actor, name, leaf, dst)
        self.features = set()
        self.info0 = None
        init = case["init"]
        if init["kind"] == "fab":
            data, dead = fab_info(init)
            ls.write_held(root, data)
            self.fab[b"fabricated0fabricated"] = dead
        elif init["kind"] == "actor":
            self.locks["A"].attempt_lock()
        self.info0 = lockdir.LockDir(ls.lock_transport(root), "lock").peek()

    def _spy_force_break(self, n, l):
        orig = l.force_break

        def force_break(info):
            k = self.break_calls[n]
            self.break_calls[n] = k + 1
            self.examined[n] = getattr(info, "nonce", None)
            self.in_break[n] = True
            try:
                r = orig(info)
                self.break_result[(n, k)] = "returned"
                return r
            except BaseException as e:
                self.break_result[(n, k)] = type(e).__name__
                raise
            finally:
                self.in_break[n] = False
        l.force_break = force_break

    # ---- runs with the baton, right before the operation is carried out
    def hook(self, transport, name, rel, dst):
        a = ft.current_actor()
        if a is None:
            return
        leaf = rel.rstrip("/").rsplit("/", 1)[-1]
        self.oplog.append((a, name, leaf, dst))
        if name == "get_bytes" and rel.endswith("held/info"):
            self.peeked[a] = ls.disk_nonce(self.root)
        if name != "rename" or leaf != "held":
            return
        cur = ls.disk_nonce(self.root)
        if not os.path.isdir(os.path.join(self.root, "lock", "held")):
            return                      # nothing there: the rename will fail
        kind = "broken" if "broken." in dst else (
            "releasing" if "releasing." in dst else "other")
        k = self.break_calls[a] - 1
        self.removed.append((a, cur, kind, getattr(self.locks[a], "nonce",
                                                   None), k))
        if kind != "broken":
            own = getattr(self.locks[a], "nonce", None)
            if kind == "releasing" and cur is not None and cur != own and \
                    own in self.broken:
                # chain effect of a deliberate break of a live holder: that
                # holder confirmed, was broken, and its delayed rename now
                # takes the next holder's lock with it.  The victim lost its
                # lock through the same deliberate break (exempt, transitively)
                self.broken.add(cur)
                self.features.add("chain-after-deliberate-break")
            return
        ex = self.examined.get(a)
        stealing = self.cur_op.get(a) in ("lock", "wait")
        if stealing:
            self.features.add("steal")
            if not self.steal[a]:
                self.viol.append(("C26/steal-without-policy", [a], None))
            if not self.fab.get(ex, False):
                # the policy decision is taken on the examined holder; a
                # removed lock that differs from it is the breaker class below
                self.viol.append((
                    "C26/steal-from-holder-not-known-dead",
                    [a, "removed", repr(cur), "examined", repr(ex)], None))
        if cur is not None and ex == cur:
            self.broken.add(cur)
            if any(getattr(l, "nonce", None) == cur and l.is_held
                   for l in self.locks.values()):
                self.features.add("live-actor-broken")
        else:
            # the breaker removes a lock it did not examine
            saw = self.peeked.get(a)
            why = "race-after-matching-peek" if saw == ex else \
                "mismatch-already-visible-at-peek"
            self.viol.append(("C26/breaker-removes-unexamined-lock:" + why,
                              [a, "examined", repr(ex), "removed", repr(cur)],
                              (a, k)))

    # ---- all actors parked
    def after_step(self, actor):
        disk = ls.disk_nonce(self.root)
        holders = [n for n in self.names
                   if self.locks[n].is_held and
                   getattr(self.locks[n], "nonce", None) not in self.broken]
        if len(holders) > 1:
            self.viol.append(("C26/two-unbroken-holders", [holders], None))
            return
        if len(holders) != 1:
            return
        h = holders[0]
        hn = self.locks[h].nonce
        if disk == hn:
            return
        removers = [r for r in self.removed if r[1] == hn]
        if any(r[0] == h and r[2] == "releasing" for r in removers):
            return          # (a) inside its own unlock
        if any(r[2] == "releasing" and r[0] != h and r[3] in self.broken
               for r in removers):
            self.features.add("chain-after-deliberate-break")
            return          # (b) chain effect of a deliberate break
        if not removers:
            self.viol.append(("C26/holder-without-disk-lock-unknown-cause",
                              [h, repr(hn), repr(disk)], None))
            return
        r = removers[0]
        if r[2] == "broken":
            self.viol.append(("C26/later-holder-lock-removed-by-breaker",
                              [h, "by", r[0]], (r[0], r[4])))
        else:
            self.viol.append(("C26/later-holder-lock-removed-by-unlocker",
                              [h, "by", r[0], r[2]], None))

    # ---- actor programs
    def program(self, n, ops):
        from breezy import errors
        from dromedary import errors as de
        l = self.locks[n]
        outcomes = []

        def run():
            for op in ops:
                self.cur_op[n] = op
                try:
                    if op == "lock":
                        if not l.is_held:
                            l.attempt_lock()
                    elif op == "wait":
                        if not l.is_held:
                            l.wait_lock(timeout=5, poll=1, max_attempts=2)
                    elif op == "unlock":
                        if l.is_held:
                            l.unlock()
                    elif op == "confirm":
                        if l.is_held:
                            l.confirm()
                    elif op == "break":
                        if not l.is_held:
                            info = l.peek()
                            if info is not None:
                                l.force_break(info)
                    elif op == "break0":
                        if not l.is_held and self.info0 is not None:
                            l.force_break(self.info0)
                    elif op == "break_ui":
                        if not l.is_held:
                            l.break_lock()
                    else:
                        raise AssertionError(op)
                    outcomes.append((op, None))
                except (errors.LockError, de.PathError) as e:
                    # who holds the lock is constrained, not which operations
                    # succeed; raw NoSuchFile / DirectoryNotEmpty come out of
                    # force_break when the lock vanishes under it
                    outcomes.append((op, type(e).__name__))
        return run, outcomes


def classify(w, sched_errors):
    """-> Outcome for the first thing that went wrong, or None."""
    from vf.runner import classify_exception
    for sig, detail, brk in w.viol:
        if sig.startswith("C26/breaker-removes-unexamined-lock") or \
                sig == "C26/later-holder-lock-removed-by-breaker":
            res = w.break_result.get(brk, "unfinished") if brk else "?"
            if sig.endswith("race-after-matching-peek") or \
                    sig == "C26/later-holder-lock-removed-by-breaker":
                if res == "LockBreakMismatch":
                    # the break noticed, too late: the removed lock stays away
                    sig = "C26/force-break-mismatch-removes-later-holder"
                elif res == "returned":
                    sig = "C26/force-break-removes-later-holder-silently"
                else:
                    sig = "C26/force-break-removes-later-holder:" + res
            else:
                sig = "%s:%s" % (sig, res)
        return violation(sig, [detail, w.case,
                               [list(map(str, x)) for x in w.oplog][-40:]])
    for n in sorted(sched_errors):
        e = sched_errors[n]
        if e is None:
            continue
        if isinstance(e, ft.Crash):
            return violation("C26/schedule-does-not-terminate", [n, w.case])
        what, sig, detail = classify_exception(PROPERTY, e)
        if what == "harness":
            raise e
        return violation(sig, [n, detail[-1500:], w.case])
    return None


def nontrivial(w):
    """Feature labels of the executed interleaving."""
    f = {x for x in w.features if x == "chain-after-deliberate-break"}
    extra = set(w.features) - f
    log = w.oplog
    # another actor runs between a breaker's matching peek and its rename
    last_peek = {}
    for i, (a, name, leaf, dst) in enumerate(log):
        if name == "get_bytes" and leaf == "info":
            last_peek[a] = i
        if name == "rename" and leaf == "held" and dst and "broken." in dst:
            j = last_peek.get(a)
            if j is not None and any(x[0] != a for x in log[j + 1:i]):
                f.add("break-interleaved")
    acq = [i for i, x in enumerate(log)
           if x[1] == "rename" and x[2].endswith(".tmp") and x[3] and
           x[3].endswith("/held")]
    for i, j in zip(acq, acq[1:]):
        if j == i + 1 and log[i][0] != log[j][0]:
            f.add("adjacent-acquisition-renames")
    if f:
        f |= extra        # qualifiers of a non-trivial interleaving
    return f


def run_schedule(case, env):
    root = env.newdir("c26")
    with ls.seam_off():
        w = World(root, case)
    sched = ft.Scheduler(case["schedule"], after_step=w.after_step,
                         max_steps=3000)
    progs = {}
    outs = {}
    for n, a in zip(w.names, case["actors"]):
        progs[n], outs[n] = w.program(n, a["prog"])
    with ls.deterministic(sched), \
            ft.session(mode="schedule", scheduler=sched), \
            ls.lock_hook(w.hook, rename_into=bool(case.get("rename_into"))):
        errs = sched.run(progs)
    bad = classify(w, errs)
    if bad is not None:
        return bad
    f = nontrivial(w)
    if not f:
        return trivial()
    return ok("+".join(sorted(f)))


PROG_OPS = ["lock"] * 4 + ["wait", "unlock", "unlock", "unlock", "confirm",
                           "break", "break", "break0", "break0", "break_ui"]

# shapes that put the interesting windows next to each other (p41), with the
# programs still perturbed and the schedule free
TEMPLATES = {
    "break-released": ("actor", [["unlock"], ["break0"], ["lock", "confirm"]]),
    "break-live": ("actor", [["confirm", "unlock"], ["break0"],
                             ["lock", "unlock"]]),
    "break-peeked": ("actor", [["unlock", "lock"], ["break"],
                               ["lock", "confirm", "unlock"]]),
    "contend": ("actor", [["unlock", "lock"], ["lock", "unlock", "lock"],
                          ["lock", "unlock"]]),
    "steal": ("dead", [["lock", "unlock"], ["lock", "confirm"], ["wait"]]),
    "break-ui": ("actor", [["confirm", "unlock"], ["break_ui"],
                           ["lock", "unlock"]]),
}


@st.composite
def gen_case(draw):
    shape = draw(st.sampled_from(sorted(TEMPLATES) * 2 + ["random"] * 6))
    dead = {"kind": "fab", "host": "ours", "user": "ours", "pid": "dead"}
    if shape != "random":
        kind, progs = TEMPLATES[shape]
        init = dict(dead) if kind == "dead" else {"kind": kind}
        actors = []
        for p in progs:
            p = list(p)
            if draw(st.integers(0, 3)) == 0:
                p.insert(draw(st.integers(0, len(p))),
                         draw(st.sampled_from(PROG_OPS)))
            actors.append({"steal": shape == "steal" or
                           draw(st.integers(0, 3)) == 0, "prog": p})
        if draw(st.integers(0, 4)) == 0:
            actors.pop()
        n = len(actors)
    else:
        kind = draw(st.sampled_from(["free", "actor", "actor", "fab", "fab"]))
        init = {"kind": kind}
        if kind == "fab":
            # mostly the stealable one, so that steals do happen
            if draw(st.booleans()):
                init = dict(dead)
            else:
                init.update(host=draw(st.sampled_from(HOSTS)),
                            user=draw(st.sampled_from(USERS)),
                            pid=draw(st.sampled_from(PIDS)))
        n = draw(st.integers(2, 3))
        actors = []
        for i in range(n):
            prog = draw(st.lists(st.sampled_from(PROG_OPS), min_size=1,
                                 max_size=4))
            if i == 0 and kind == "actor" and prog[0] == "lock":
                prog[0] = "unlock"
            actors.append({"steal": draw(st.booleans()), "prog": prog})
    schedule = draw(st.lists(st.integers(0, n - 1), min_size=25, max_size=90))
    return {"init": init, "actors": actors, "schedule": schedule,
            "rename_into": draw(st.integers(0, 4)) == 0}


def kinds(tier):
    return [
        Kind("known-dead-table", run_table, enumerate=enum_table,
             exhaustive=True, hash_cases=False),
        Kind("schedules", run_schedule, strategy=gen_case(),
             examples={"quick": 3000, "thorough": 120000}),
    ]
