"""C10 - all tree-comparison implementations report the same changes.

Two trees related by a generated edit script are compared by the optimiser
InterTree.get() selects and by the generic implementation, with and without a
path filter; the results are compared with each other, with a model diff, and
the reported changes are applied to the source to rebuild the target."""

import os
import shutil

from hypothesis import strategies as st

from vf.api import Kind, check, ok, trivial, violation
from vf.lib import bz
from vf.lib import treemodel as tm

PROPERTY = "C10"
# trees have at most a dozen entries: a comparison that has not answered after
# 30 s does not terminate (see the finding of that name)
CASE_TIMEOUT = 15
TIMEOUT_SIGNATURE = "C10/iter_changes-with-path-filter-does-not-terminate"
LEVEL = "exploration"
TECHNIQUE = ("differential testing of the selected InterTree optimiser "
             "against the generic implementation and a model diff, plus "
             "apply-the-changes reconstruction and inventory-delta validity "
             "of filtered results")
RULE = ("a base tree (2-8 adds over names a-e plus odd names, depth <= 3) and "
        "an edit script of 1-7 ops favouring hard shapes (swap of two "
        "siblings, rename a directory and edit a child, re-parent, kind "
        "change in place, delete + add of the same path with a new id, "
        "unversioned files and directories in the target); pairs: working "
        "tree vs basis (2a, pack-0.92, git), revision tree vs revision tree "
        "(2a CHK, pack-0.92, git), working tree vs an older revision (2a); 4 "
        "option sets per pair (include_unchanged, want_unversioned, "
        "require_versioned, specific_files = any subset of the union of paths "
        "plus sometimes a non-existent one). Non-trivial: >= 1 rename or kind "
        "change and a proper non-empty filter, or a swap. Distinct by case "
        "hash.")
ASSUMPTIONS = [
    "bzrformats' Inventory.apply_delta is the validity checker for the "
    "'every parent needed' clause",
    "excluded by construction: a path that is a directory with children in "
    "an earlier committed tree and a non-directory now (the dirstate "
    "comparison of the trusted base asserts), entries put below an entry "
    "whose kind was changed to directory in the same uncommitted script "
    "(bzrformats' Inventory.rename panics on the stale kind), unversioned "
    "files below such an entry",
    "filtered results: records outside the selected set may differ between "
    "implementations (open finding F16); a filtered result whose delta does "
    "not apply because of such an extra record is counted under F16",
    "git: similarity-based rename detection is not part of the property; "
    "git results are compared in split (remove + add) form and generated git "
    "texts are pairwise dissimilar only by chance, so pairing is undone "
    "before comparing",
]
NONTRIVIAL_FLOOR = {"quick": 150, "thorough": 5000}

ROOT = tm.ROOT_ID


# ------------------------------------------------------------------ generator

def _draw_script(draw, m, ids, bzr, prev):
    """Edit script applied to model m (mutated). Ops are treemodel ops plus
    ["kind", id, new_kind, content, exec] (kind change in place)."""
    ops = []
    shapes = set()
    n = draw(st.integers(1, 4))
    for _ in range(n):
        shape = draw(st.sampled_from(
            ["plain", "plain", "swap", "dir-rename-edit", "reparent", "kind",
             "replace", "new-parent", "new-parent"]))
        nonroot = sorted(f for f in m if f != ROOT)
        if shape == "plain":
            new = tm.draw_ops(draw, m, ids, n_min=1, n_max=2)
            ops += new
            if any(o[0] == "rename" for o in new):
                shapes.add("rename")
        elif shape == "swap":
            pair = tm.draw_swap(draw, m)
            if pair is None:
                continue
            a, b = pair
            pa, na = m[a]["parent"], m[a]["name"]
            pb, nb = m[b]["parent"], m[b]["name"]
            seq = [["rename", a, pa, "swap.tmp"], ["rename", b, pa, na],
                   ["rename", a, pb, nb]]
            tm.apply_ops(m, seq)
            ops += seq
            shapes.add("swap")
        elif shape == "dir-rename-edit":
            ds = [d for d in tm.dirs(m) if d != ROOT and tm.children(m, d)]
            if not ds:
                continue
            d = draw(st.sampled_from(ds))
            par = m[d]["parent"]
            free = [x for x in tm.NAMES + ["z"] if x not in
                    tm.names_in(m, par)]
            if not free:
                continue
            seq = [["rename", d, par, draw(st.sampled_from(free))]]
            kids = [c for c in tm.children(m, d) if m[c]["kind"] == "file"]
            if kids:
                c = draw(st.sampled_from(kids))
                seq.append(["modify", c, m[c]["content"] + "edited\n"])
            tm.apply_ops(m, seq)
            ops += seq
            shapes.add("rename")
        elif shape == "reparent":
            if not nonroot:
                continue
            f = draw(st.sampled_from(nonroot))
            banned = set(tm.descendants(m, f)) | {f, m[f]["parent"]}
            cands = [d for d in tm.dirs(m) if d not in banned and
                     tm.depth(m, d) < 3 and
                     m[f]["name"] not in tm.names_in(m, d)]
            if not cands:
                continue
            op = ["rename", f, draw(st.sampled_from(cands)), m[f]["name"]]
            tm.apply_op(m, op)
            ops.append(op)
            shapes.add("rename")
        elif shape == "kind":
            # (a directory that has children in an earlier committed tree is
            # not replaced by a file: the dirstate comparison - trusted base -
            # asserts when it stats the basis children below the file)
            leaves = [f for f in nonroot if not tm.children(m, f) and not any(
                f in pm and tm.children(pm, f) for pm in prev)]
            if not leaves:
                continue
            f = draw(st.sampled_from(leaves))
            k = draw(st.sampled_from(
                [x for x in ("file", "directory", "symlink")
                 if x != m[f]["kind"]]))
            c = ("kind-changed\n" if k == "file" else
                 "nowhere" if k == "symlink" else None)
            op = ["kind", f, k, c, False]
            apply_op(m, op)
            ops.append(op)
            shapes.add("kind")
        elif shape == "new-parent":
            # a new directory takes the path another id held (that id is
            # deleted or renamed away) and an entry is added / moved into it:
            # a filter on the child alone needs the new parent AND the entry
            # that vacated its path
            if not nonroot:
                continue
            y = draw(st.sampled_from(nonroot))
            par, name = m[y]["parent"], m[y]["name"]
            free = [x for x in tm.NAMES + ["z"] if x not in
                    tm.names_in(m, par)]
            if free and draw(st.booleans()):
                seq = [["rename", y, par, draw(st.sampled_from(free))]]
            else:
                seq = [["delete", y]]
            tm.apply_ops(m, seq)
            d = ids.next()
            op = ["add", d, par, name, "directory", None, False]
            tm.apply_op(m, op)
            seq.append(op)
            movable = [e for e in sorted(m) if e not in (ROOT, d) and
                       d not in tm.descendants(m, e) and
                       tm.depth(m, d) + 1 + max(
                           [tm.depth(m, x) - tm.depth(m, e)
                            for x in tm.descendants(m, e)] + [0]) <= 4]
            if movable and draw(st.booleans()):
                c = draw(st.sampled_from(movable))
                op = ["rename", c, d, m[c]["name"]]
            else:
                c = ids.next()
                op = ["add", c, d, "n", "file", "new\n", False]
            tm.apply_op(m, op)
            seq.append(op)
            ops += seq
            shapes.add("rename")
            ids.focus = getattr(ids, "focus", []) + [c]
        else:   # replace: delete + add at the same path with a new id
            if not nonroot:
                continue
            f = draw(st.sampled_from(nonroot))
            par, name = m[f]["parent"], m[f]["name"]
            seq = [["delete", f],
                   ["add", ids.next(), par, name, "file", "replaced\n", False]]
            tm.apply_ops(m, seq)
            ops += seq
            shapes.add("replace")
    return ops, sorted(shapes)


def _script_ok(ops):
    """Nothing is put below an entry whose kind was changed to directory in
    the same script: the working inventory still records the old kind and
    bzrformats' Inventory.rename / add panics on a non-directory parent."""
    fresh = set()
    for op in ops:
        if op[0] == "kind" and op[2] == "directory":
            fresh.add(op[1])
        elif op[0] in ("add", "rename") and op[2] in fresh:
            return False
    return True


def _fa_ok(prev, m):
    """No path that is a directory with children in an earlier committed tree
    is a non-directory now (see the note at shape "kind")."""
    now = tm.paths(m)
    for pm in prev:
        for fid, e in pm.items():
            if e["kind"] == "directory" and fid != ROOT and \
                    tm.children(pm, fid):
                cur = now.get(tm.path_of(pm, fid))
                if cur is not None and m[cur]["kind"] != "directory":
                    return False
    return True


def apply_op(m, op):
    if op[0] == "kind":
        e = m[op[1]]
        e["kind"], e["content"], e["exec"] = op[2], op[3], bool(op[4])
    else:
        tm.apply_op(m, op)


PAIRS = {
    "2a": ["wt-basis", "wt-basis", "rev-rev", "rev-rev", "wt-old"],
    "pack-0.92": ["wt-basis", "rev-rev"],
    "git": ["wt-basis", "rev-rev"],
}


def gen_case(fmt):
    @st.composite
    def build(draw):
        bzr = fmt != "git"
        ids = tm.IdSource()
        m = tm.new_model()
        kw = dict(odd_names=bzr)
        base = tm.draw_ops(draw, m, ids, n_min=2, n_max=8,
                           kinds=["add", "add", "add_dir"], **kw)
        pair = draw(st.sampled_from(PAIRS[fmt]))
        # a directory D, something inside it and a sibling whose name is
        # D + a character that sorts before '/': a filter naming all three
        # covers the path below D twice if covered paths are pruned by
        # comparing neighbours of the sorted filter only
        twin = None
        if draw(st.integers(0, 9)) < 4:
            ds = [d for d in tm.dirs(m) if d != ROOT and
                  tm.depth(m, d) < 3]
            if ds and draw(st.booleans()):
                d = draw(st.sampled_from(ds))
            else:
                d = ids.next()
                free = [x for x in tm.NAMES + ["doc"] if x not in
                        tm.names_in(m, ROOT)]
                op = ["add", d, ROOT, draw(st.sampled_from(free)),
                      "directory", None, False]
                tm.apply_op(m, op)
                base.append(op)
            kids = [c for c in tm.children(m, d)]
            if kids and draw(st.booleans()):
                kid = draw(st.sampled_from(kids))
            else:
                kid = ids.next()
                free = [x for x in tm.NAMES + ["f"] if x not in
                        tm.names_in(m, d)]
                op = ["add", kid, d, draw(st.sampled_from(free)), "file",
                      "inside\n", False]
                tm.apply_op(m, op)
                base.append(op)
            sib_name = m[d]["name"] + draw(st.sampled_from(
                [".txt", "-x", " x", "+", "!", ".", "-"]))
            if sib_name not in tm.names_in(m, m[d]["parent"]):
                sib = ids.next()
                op = ["add", sib, m[d]["parent"], sib_name,
                      draw(st.sampled_from(["file", "file", "directory"])),
                      None, False]
                if op[4] == "file":
                    op[5] = "sibling\n"
                tm.apply_op(m, op)
                base.append(op)
                twin = [d, sib, kid]
        m0 = tm.clone(m)
        ops, shapes = _draw_script(draw, m, ids, bzr, [m0])
        if twin and twin[2] in m and m[twin[2]]["kind"] == "file" and \
                draw(st.integers(0, 9)) < 7:
            op = ["modify", twin[2], m[twin[2]]["content"] + "more\n"]
            tm.apply_op(m, op)
            ops.append(op)
        if not _fa_ok([m0], m) or not _script_ok(ops):
            m, ops, shapes = tm.clone(m0), [], []
        m1 = tm.clone(m)
        ops2 = []
        if pair == "wt-old":
            ops2, s2 = _draw_script(draw, m, ids, bzr, [m0, m1])
            if not _fa_ok([m0, m1], m) or not _script_ok(ops2):
                m, ops2, s2 = tm.clone(m1), [], []
            shapes = sorted(set(shapes) | set(s2))
        unv = []
        if pair != "rev-rev" and draw(st.booleans()):
            # (not below an entry that became a directory since the last
            # commit: whether a comparison descends into it depends on the
            # kind the working inventory still remembers)
            pending = ops2 if pair == "wt-old" else ops
            fresh = {o[1] for o in pending if o[0] == "kind"}
            hosts = [d for d in tm.dirs(m) if d not in fresh]
            for _ in range(draw(st.integers(1, 3))):
                d = draw(st.sampled_from(hosts))
                name = draw(st.sampled_from(["u1", "u2", "u3"]))
                if name in tm.names_in(m, d) or any(
                        u[0] == d and u[1] == name for u in unv):
                    continue
                unv.append([d, name, draw(st.sampled_from(
                    ["file", "directory"]))])
        # option sets
        allp = sorted(set(tm.paths(m)) | set(tm.paths(m0)) |
                      set(tm.paths(m1)) | {"nonexistent"})
        focus = [tm.path_of(m, c) for c in getattr(ids, "focus", [])
                 if c in m]
        opts = []
        for _ in range(4):
            o = {"include_unchanged": draw(st.integers(0, 9)) < 3,
                 "want_unversioned": pair != "rev-rev" and
                 draw(st.integers(0, 9)) < 3,
                 "require_versioned": draw(st.booleans()),
                 "specific_files": None}
            if draw(st.integers(0, 9)) < 7:
                o["specific_files"] = draw(st.lists(
                    st.sampled_from(allp), min_size=1, max_size=3,
                    unique=True))
            if twin and all(t in m for t in twin) and \
                    draw(st.integers(0, 9)) < 5:
                o["specific_files"] = [tm.path_of(m, t) for t in twin]
                if draw(st.booleans()):
                    o["specific_files"].append(draw(st.sampled_from(allp)))
                o["include_unchanged"] = draw(st.booleans())
            elif focus and draw(st.integers(0, 9)) < 4:
                # only the entry that went into the new directory
                o["specific_files"] = [draw(st.sampled_from(focus))]
            opts.append(o)
        return {"fmt": fmt, "pair": pair, "base": base, "ops": ops,
                "ops2": ops2, "unversioned": unv, "options": opts,
                "shapes": shapes}
    return build()


# ------------------------------------------------------------------ building

def _apply_git(wt, m, op):
    """Interpreter for git trees: directories are implicit there (an empty
    directory is not versioned, cannot be renamed or unversioned through the
    tree), so those steps are done on disk only."""
    base = wt.basedir
    k = op[0]
    if k == "add":
        tm.apply_op(m, op)
        path = tm.path_of(m, op[1])
        ap = os.path.join(base, path)
        if op[4] == "directory":
            os.mkdir(ap)
            return
        if op[4] == "symlink":
            os.symlink(op[5], ap)
        else:
            with open(ap, "wb") as f:
                f.write(bz.cbytes(op[5]))
            os.chmod(ap, 0o755 if op[6] else 0o644)
        wt.add([path])
    elif k == "rename":
        old = tm.path_of(m, op[1])
        versioned = wt.is_versioned(old)
        tm.apply_op(m, op)
        new = tm.path_of(m, op[1])
        if versioned:
            wt.rename_one(old, new)
        else:
            os.rename(os.path.join(base, old), os.path.join(base, new))
    elif k == "delete":
        victims = [op[1]] + tm.descendants(m, op[1])
        files = [tm.path_of(m, v) for v in victims
                 if m[v]["kind"] != "directory"]
        ap = os.path.join(base, tm.path_of(m, op[1]))
        tm.apply_op(m, op)
        if os.path.islink(ap) or not os.path.isdir(ap):
            os.unlink(ap)
        else:
            shutil.rmtree(ap)
        if files:
            wt.unversion(sorted(files))
    else:
        bz.apply_ops_wt(wt, m, [op], use_ids=False)


def _apply_wt(wt, m, ops, use_ids):
    git = not use_ids
    for op in ops:
        if git and op[0] in ("add", "rename", "delete"):
            _apply_git(wt, m, op)
        elif op[0] == "kind":
            ap = os.path.join(wt.basedir, tm.path_of(m, op[1]))
            if os.path.islink(ap) or not os.path.isdir(ap):
                os.unlink(ap)
            else:
                shutil.rmtree(ap)
            if op[2] == "directory":
                os.mkdir(ap)
            elif op[2] == "symlink":
                os.symlink(op[3], ap)
            else:
                with open(ap, "wb") as f:
                    f.write(bz.cbytes(op[3]))
                os.chmod(ap, 0o644)
            was_dir = m[op[1]]["kind"] == "directory"
            apply_op(m, op)
            if git and op[2] == "directory":
                # a directory is not an index entry
                wt.unversion([tm.path_of(m, op[1])])
            elif git and was_dir:
                # an (empty) directory was never in the index
                wt.add([tm.path_of(m, op[1])])
        else:
            bz.apply_ops_wt(wt, m, [op], use_ids=use_ids)


def _commit(wt, rid):
    if wt.branch.repository._format.supports_setting_revision_ids:
        return bz.commit(wt, rev_id=rid)
    return wt.commit("m", timestamp=bz.T0, timezone=0,
                     committer=bz.COMMITTER, allow_pointless=True)


def build(case, root):
    """-> (wt, source tree, target tree, source model, target model,
    unversioned {path: kind})"""
    fmt = case["fmt"]
    wt = bz.init_tree(root, fmt)
    use_ids = wt.supports_setting_file_ids()
    m = tm.new_model()
    with wt.lock_write():
        if use_ids:
            wt.set_root_id(bz.enc(ROOT))
        _apply_wt(wt, m, case["base"], use_ids)
        bz.age_files(root)
        r0 = _commit(wt, "r0")
        m0 = tm.clone(m)
        _apply_wt(wt, m, case["ops"], use_ids)
        bz.age_files(root)
        m1 = tm.clone(m)
        r1 = None
        if case["pair"] in ("rev-rev", "wt-old"):
            r1 = _commit(wt, "r1")
        if case["pair"] == "wt-old":
            _apply_wt(wt, m, case["ops2"], use_ids)
        unv = {}
        for d, name, kind in case["unversioned"]:
            p = tm.path_of(m, d)
            p = p + "/" + name if p else name
            ap = os.path.join(root, p)
            if kind == "directory":
                os.mkdir(ap)
                with open(os.path.join(ap, "inner"), "wb") as f:
                    f.write(b"inner\n")
            else:
                with open(ap, "wb") as f:
                    f.write(b"unversioned\n")
            unv[p] = kind
        bz.age_files(root)
    repo = wt.branch.repository
    if case["pair"] == "rev-rev":
        return (wt, repo.revision_tree(r0), repo.revision_tree(r1), m0, m1,
                {})
    if case["pair"] == "wt-basis":
        return wt, wt.basis_tree(), wt, m0, m, unv
    return wt, repo.revision_tree(r0), wt, m0, m, unv


# ------------------------------------------------------------------ canon

def _s(x):
    return x.decode("utf-8") if isinstance(x, bytes) else x


def canon(c):
    kinds = tuple(c.kind)
    ex = tuple((bool(e) if k == "file" else None)
               for e, k in zip(c.executable, kinds))
    return (_s(c.file_id), tuple(c.path), bool(c.changed_content),
            tuple(c.versioned), tuple(_s(p) for p in c.parent_id),
            tuple(c.name), kinds, ex, bool(getattr(c, "copied", False)))


def _renamed_above(path, ms, mt):
    """Is there a second route to `path`: does the path or one of the
    directory paths above it belong, in either tree, to an entry that is at
    another path in the other tree? (The dirstate walks both trees by path:
    a directory renamed onto or away from such a path drags the entries at
    that path of the other tree into the walk a second time.)"""
    tp, sp = tm.paths(mt), tm.paths(ms)
    p = path
    while True:
        x, y = tp.get(p), sp.get(p)
        if x is not None and x in ms and tm.path_of(ms, x) != p:
            return True
        if y is not None and y in mt and tm.path_of(mt, y) != p:
            return True
        if not p:
            return False
        p = os.path.dirname(p)


def collect(it, name, deferred, models, **kw):
    """The canonical records of one comparison as a set - after making sure
    that it is one: no entry may be reported twice (a result is a set of
    changes; a filter that covers a path twice must not double them).
    Listed exception (open finding): an entry that two filter elements reach
    by different routes (its old and its new path, a renamed or replaced
    parent directory) is reported twice, identically, by every bzr
    implementation. Not excused: anything unfiltered, and a double report
    that can only come from the filter naming a path below another of its
    elements (the redundant element must be pruned): the entry lies below
    such an element and neither it nor a directory above it is at another
    path in the source tree, so there is no second route to it. (Running
    the comparison again without the redundant elements does not decide it:
    which of two routes doubles depends on the order in which the dirstate
    walks the search set.)
    git ids are paths: a kind change in place is a removal plus an addition
    of the same id."""
    recs = [canon(c) for c in it.iter_changes(**kw)]
    impl = name.split(":")[1]
    if impl == "InterGitTrees":
        return set(recs)
    seen = {}
    for r in recs:
        key = r[0] if r[0] is not None else ("unversioned", r[1][1])
        if key in seen:
            det = {"options": kw, "first": seen[key], "again": r}
            sf = kw.get("specific_files")
            inner = [f for f in (sf or []) if any(
                g != f and (g == "" or f.startswith(g + "/")) for g in sf)]
            moved = r[3] == (True, True) and r[1][0] != r[1][1]
            nested = any(selected(r[1][0], [f]) or selected(r[1][1], [f])
                         for f in inner)
            if sf is not None and nested and not moved and _renamed_above(
                    r[1][1] if r[1][1] is not None else r[1][0],
                    models[0], models[1]):
                nested = False
            check(sf is not None and r == seen[key] and
                  (moved or not nested),
                  "C10/entry-reported-twice-" + impl, det)
            deferred.append(("C10/entry-reached-by-two-filter-routes-"
                             "reported-twice-" + impl, det))
        seen[key] = r
    return set(recs)


def is_changed(r):
    return bool(r[2] or r[3][0] != r[3][1] or r[4][0] != r[4][1] or
                r[5][0] != r[5][1] or r[6][0] != r[6][1] or
                r[7][0] != r[7][1])


def model_records(ms, mt):
    """All records (changed and unchanged) the model expects, keyed like
    canon() (bzr)."""
    out = set()
    for fid in set(ms) | set(mt):
        s, t = ms.get(fid), mt.get(fid)
        ks = s["kind"] if s else None
        kt = t["kind"] if t else None
        if ks != kt:
            cc = True
        elif ks in ("file", "symlink"):
            cc = s["content"] != t["content"]
        else:
            cc = False
        out.add((fid,
                 (tm.path_of(ms, fid) if s else None,
                  tm.path_of(mt, fid) if t else None),
                 cc, (s is not None, t is not None),
                 (s["parent"] if s else None, t["parent"] if t else None),
                 (s["name"] if s else None, t["name"] if t else None),
                 (ks, kt),
                 (bool(s["exec"]) if ks == "file" else None,
                  bool(t["exec"]) if kt == "file" else None), False))
    return out


def model_facts(ms, mt):
    """git: split form over non-directory paths."""
    def side(m):
        out = {}
        for fid, e in m.items():
            if e["kind"] != "directory":
                out[tm.path_of(m, fid)] = (
                    e["kind"], e["content"],
                    bool(e["exec"]) if e["kind"] == "file" else None)
        return out
    a, b = side(ms), side(mt)
    out = set()
    for p in set(a) | set(b):
        if a.get(p) == b.get(p):
            continue
        if p in a:
            out.add(("-", p, a[p][0], a[p][2]))
        if p in b:
            out.add(("+", p, b[p][0], b[p][2]))
    return out


def facts(records):
    out = set()
    for r in records:
        fid, (old, new), cc, ver, par, names, kinds, ex, copied = r
        if not is_changed(r):
            continue
        if old is not None and ver[0] and kinds[0] not in (
                "directory", None) and not copied:
            out.add(("-", old, kinds[0], ex[0]))
        if new is not None and ver[1] and kinds[1] not in ("directory", None):
            out.add(("+", new, kinds[1], ex[1]))
    return out


def selected(p, files):
    return p is not None and any(
        f == "" or p == f or p.startswith(f + "/") for f in files)


# ------------------------------------------------------------------ oracle

def _impls(src, tgt):
    from breezy import tree as _tree
    from breezy.bzr import inventorytree
    opt = _tree.InterTree.get(src, tgt)
    out = [("opt:" + type(opt).__name__, opt)]
    if hasattr(src, "root_inventory") and hasattr(tgt, "root_inventory"):
        out.append(("generic:InterInventoryTree",
                    inventorytree.InterInventoryTree(src, tgt)))
    return out


def _only_source_paths_of_unchanged(a, b):
    """Do two result sets differ only in the source path of unchanged
    records (same id, everything else equal)?"""
    da = {r[0]: r for r in a - b}
    db = {r[0]: r for r in b - a}
    if set(da) != set(db) or len(da) != len(a - b) or len(db) != len(b - a):
        return False
    for fid, r in da.items():
        q = db[fid]
        if is_changed(r) or is_changed(q):
            return False
        if r[1][1] != q[1][1] or r[2:] != q[2:]:
            return False
    return True


def rebuild(src_tree, tgt_tree, records):
    """Apply the unfiltered changed records to the source snapshot."""
    snap = bz.snapshot_tree(src_tree)
    p2id = {p: e[3] for p, e in snap.items()}
    p2id[""] = ROOT
    ent = {}
    for p, (kind, val, ex, fid) in snap.items():
        ent[fid] = {"parent": p2id[os.path.dirname(p)],
                    "name": os.path.basename(p), "kind": kind, "val": val,
                    "exec": ex}
    for r in records:
        fid, (old, new), cc, ver, par, names, kinds, ex, copied = r
        if fid is None or fid == ROOT:
            continue
        if not ver[1]:
            ent.pop(fid, None)
            continue
        fresh = fid not in ent
        e = ent.setdefault(fid, {})
        e.update(parent=par[1], name=names[1], kind=kinds[1], exec=ex[1])
        if cc or fresh:
            if kinds[1] == "file":
                e["val"] = bz.sha1(tgt_tree.get_file_text(new))
            elif kinds[1] == "symlink":
                e["val"] = tgt_tree.get_symlink_target(new)
            else:
                e["val"] = None

    def path_of(fid, n=0):
        if fid == ROOT:
            return ""
        if fid not in ent or n > 50:
            return "?" + str(fid)
        pp = path_of(ent[fid]["parent"], n + 1)
        return pp + "/" + ent[fid]["name"] if pp else ent[fid]["name"]
    return {path_of(fid): [e["kind"], e["val"], e["exec"], fid]
            for fid, e in ent.items()}


def run(case, env):
    from breezy import errors
    root = os.path.join(env.newdir(), "t")
    wt, src, tgt, ms, mt, unv = build(case, root)
    git = case["fmt"] == "git"
    shapes = set(case["shapes"])
    nt = None
    with src.lock_read(), tgt.lock_read():
        impls = _impls(src, tgt)
        deferred = []
        dups = []
        # ---- (1) unfiltered
        U = {}
        for name, it in impls:
            for iu in (False, True):
                recs = collect(it, name, dups, (ms, mt),
                               include_unchanged=iu)
                U[name, iu] = recs
        n0 = impls[0][0]
        for name, it in impls[1:]:
            for iu in (False, True):
                a, b = U[n0, iu], U[name, iu]
                if a != b and _only_source_paths_of_unchanged(a, b):
                    # listed defect; go on with the generic result
                    deferred.append((
                        "C10/include_unchanged-source-path-of-"
                        "unchanged-entry-below-renamed-directory-" +
                        n0.split(":")[1],
                        {"only_optimiser": sorted(a - b, key=repr)[:4],
                         "only_generic": sorted(b - a, key=repr)[:4]}))
                    U[n0, iu] = a = b
                check(a == b, "C10/unfiltered-differs-%s-vs-generic%s" % (
                    n0.split(":")[1], "-include_unchanged" if iu else ""),
                    {"only_optimiser": sorted(a - b, key=repr)[:4],
                     "only_generic": sorted(b - a, key=repr)[:4]})
        if git:
            exp = model_facts(ms, mt)
            got = facts(U[n0, False])
            check(got == exp, "C10/git-unfiltered-differs-from-model-" +
                  case["pair"],
                  {"only_reported": sorted(got - exp),
                   "only_expected": sorted(exp - got)})
        else:
            allrec = model_records(ms, mt)
            exp_ch = set(r for r in allrec if is_changed(r))
            for (name, iu), recs in sorted(U.items()):
                exp = allrec if iu else exp_ch
                check(recs == exp, "C10/unfiltered-differs-from-model-%s%s" % (
                    name.split(":")[1], "-include_unchanged" if iu else ""),
                    {"only_reported": sorted(recs - exp, key=repr)[:4],
                     "only_expected": sorted(exp - recs, key=repr)[:4]})
            # applying the changes to the source gives the target
            got = rebuild(src, tgt, U[n0, False])
            if tgt is wt:
                # (a working tree's inventory may remember a stale kind)
                want = bz.model_snapshot(mt)
            else:
                want = bz.snapshot_tree(tgt)
            check(got == want, "C10/applying-changes-does-not-give-target",
                  {"got_vs_want": {str(p): [got.get(p), want.get(p)]
                                   for p in set(got) | set(want)
                                   if got.get(p) != want.get(p)}})
        # ---- (2),(3) filtered / options
        Uch = U[impls[-1][0], False]
        Uall = U[impls[-1][0], True]
        extras_differ = None
        for o in case["options"]:
            kw = dict(include_unchanged=o["include_unchanged"],
                      want_unversioned=o["want_unversioned"],
                      require_versioned=o["require_versioned"],
                      specific_files=o["specific_files"])
            res = {}
            for name, it in impls:
                try:
                    res[name] = collect(it, name, dups, (ms, mt), **kw)
                except errors.PathsNotVersionedError:
                    res[name] = "refused"
            vals = list(res.values())
            if any(v == "refused" for v in vals):
                check(all(v == "refused" for v in vals),
                      "C10/refusal-differs-between-implementations",
                      {"options": o, "refused": sorted(
                          n for n, v in res.items() if v == "refused")})
                sf = o["specific_files"] or []
                known = set(tm.paths(ms)) | set(tm.paths(mt))
                if git:
                    # only files, symlinks and the directories above them
                    known = set()
                    for mm in (ms, mt):
                        for fid, e in mm.items():
                            if e["kind"] != "directory":
                                p = tm.path_of(mm, fid)
                                while p:
                                    known.add(p)
                                    p = os.path.dirname(p)
                    known.add("")
                check(o["require_versioned"] and
                      any(f not in known for f in sf),
                      "C10/refused-although-all-paths-versioned",
                      {"options": o})
                continue
            sf = o["specific_files"]
            for name, R in sorted(res.items()):
                Rv = set(r for r in R if r[0] is not None or r[3] != (
                    False, False))
                Rch = set(r for r in Rv if is_changed(r))
                if sf is None:
                    must = Uch
                else:
                    must = set(r for r in Uch if selected(r[1][0], sf) or
                               selected(r[1][1], sf))
                if git:
                    fm, fr, fu = facts(must), facts(Rch), facts(Uch)
                    if sf is not None:
                        fm = set(f for f in fu if selected(f[1], sf))
                    check(fm <= fr, "C10/git-filtered-misses-selected-change",
                          {"options": o, "missing": sorted(fm - fr)})
                    check(fr <= fu, "C10/git-filtered-invents-change",
                          {"options": o, "invented": sorted(fr - fu)})
                    continue
                impl = name.split(":")[1]
                check(must <= Rch, "C10/filtered-misses-selected-change-" +
                      impl, {"options": o,
                             "missing": sorted(must - Rch, key=repr)[:4]})
                # nothing invented: every other record is about a real id
                # and its target side agrees with the target tree
                tgt_side = {r[0]: r for r in Uall}
                for r in sorted(Rv - must, key=repr):
                    ref = tgt_side.get(r[0])
                    okay = ref is not None and all(
                        r[i][1] == ref[i][1] for i in (1, 3, 4, 5, 6, 7))
                    if not okay:
                        extras_differ = extras_differ or [
                            "invented-or-stale-extra", impl, o, r]
                # delta validity ("every parent needed")
                if o["specific_files"] is not None:
                    bad = delta_check(src, tgt, Rch, must)
                    if bad is not None:
                        # F16: extras that are not verbatim unfiltered
                        # records (versioned[0] False for an existing id)
                        # break the delta; without them it must apply
                        clean = set(r for r in Rch if r in Uch)
                        if clean != Rch:
                            extras_differ = extras_differ or [
                                "delta-breaks-on-extra-record", impl, o,
                                sorted(Rch - clean, key=repr)[:3]]
                            bad = None
                    if bad is not None and bad[0] == "apply" and \
                            "path already versioned" in bad[1]:
                        # the result moves an entry onto a path whose
                        # occupant (moved elsewhere in the target) it omits.
                        # Listed for the case that the entry put there is a
                        # selected one; for a dragged-in record (a new parent
                        # directory) the partner must be there.
                        cs = colliders(Rch, ms, mt, must)
                        det = {"options": o, "why": bad[1],
                               "colliding": cs,
                               "result": sorted(Rch, key=repr)[:8]}
                        check("parent" not in cs,
                              "C10/filtered-result-omits-collision-partner-"
                              "of-new-parent-" + impl, det)
                        if "indirect" in cs:
                            deferred.append((
                                "C10/filtered-result-omits-indirect-"
                                "collision-partner-" + impl, det))
                            bad = None
                        elif "selected" in cs:
                            deferred.append((
                                "C10/filtered-result-omits-collision-"
                                "partner-" + impl, det))
                            bad = None
                    if bad is not None and bad[0] == "must":
                        check(False, "C10/filtered-delta-loses-selected-"
                              "entry-" + impl, {"options": o, "why": bad[1]})
                    if bad is not None:
                        check(False, "C10/filtered-delta-does-not-apply-" +
                              impl, {"options": o, "why": bad[1],
                                     "result": sorted(Rch, key=repr)[:8]})
            if not git and len(res) == 2:
                a, b = [res[n] for n, _ in impls]
                # unversioned files are reported alike by every implementation
                # (inside the selection; outside of it see F16)
                au = set(r for r in a if r[0] is None and (
                    sf is None or selected(r[1][1], sf)))
                bu = set(r for r in b if r[0] is None and (
                    sf is None or selected(r[1][1], sf)))
                check(au == bu, "C10/unversioned-records-differ-between-"
                      "implementations",
                      {"options": o, "only_optimiser": sorted(au - bu, key=repr),
                       "only_generic": sorted(bu - au, key=repr)})
                if a != b and _only_source_paths_of_unchanged(a, b):
                    deferred.append((
                        "C10/include_unchanged-source-path-of-"
                        "unchanged-entry-below-renamed-directory-" +
                        n0.split(":")[1], {"options": o}))
                elif a != b:
                    # differences inside Must are a new violation
                    if sf is None:
                        must = Uch
                    else:
                        must = set(r for r in Uch
                                   if selected(r[1][0], sf) or
                                   selected(r[1][1], sf))
                    diff = (a ^ b)
                    inside = set(r for r in diff if r in must)
                    check(not inside,
                          "C10/filtered-results-differ-inside-selection",
                          {"options": o,
                           "records": sorted(inside, key=repr)[:4]})
                    if sf is None and not o["want_unversioned"]:
                        check(False, "C10/unfiltered-option-set-differs",
                              {"options": o,
                               "diff": sorted(diff, key=repr)[:4]})
                    extras_differ = extras_differ or [
                        "results-differ", None, o,
                        sorted(diff, key=repr)[:4]]
            if sf is not None and ("rename" in shapes or "kind" in shapes) \
                    and 0 < len(sf):
                nt = nt or "rename-or-kind-change+filter"
    if "swap" in shapes:
        nt = "swap" if nt is None else nt + "+swap"
    if deferred:
        return violation(deferred[0][0], deferred[0][1], label=nt)
    if dups:
        return violation(dups[0][0], dups[0][1], label=nt)
    if extras_differ is not None:
        return violation("C10/filtered-extras-differ", extras_differ,
                         label=nt)
    return ok(nt) if nt else trivial()


def colliders(Rch, ms, mt, must):
    """Records of a result that put an entry into a (parent, name) slot whose
    source occupant the result leaves where it is, classified:
      "selected"  the record is one of the selected ones,
      "parent"    it is a dragged-in ancestor of a selected entry and its
                  target path is the occupant's source path (the plain case
                  the expansion of a filtered result exists for),
      "indirect"  anything else (partner of a partner, or below a directory
                  that is itself renamed).
    -> {class: [records]}"""
    slot = {(e["parent"], e["name"]): fid for fid, e in ms.items()}
    src_paths = tm.paths(ms)
    recs = {r[0]: r for r in Rch}
    anc = set()
    for r in must:
        x = mt.get(r[0], {}).get("parent") if r[3][1] else None
        while x is not None and x in mt:
            anc.add(x)
            x = mt[x]["parent"]
    out = {}
    for r in Rch:
        if not r[3][1]:
            continue
        occ = slot.get((r[4][1], r[5][1]))
        if occ is None or occ == r[0]:
            continue
        q = recs.get(occ)
        if q is not None and (not q[3][1] or q[4][0] != q[4][1] or
                              q[5][0] != q[5][1]):
            continue          # the occupant leaves the slot
        if r in must:
            k = "selected"
        elif r[0] in anc and src_paths.get(r[1][1]) == occ:
            k = "parent"
        else:
            k = "indirect"
        out.setdefault(k, []).append(r)
    return out


def delta_check(src, tgt, Rch, must):
    """Turn the changed records into an inventory delta and apply it to a
    copy of the source inventory. -> None | ("must"|"extras", why)"""
    from bzrformats import errors as bfe
    from bzrformats import inventory as _inv
    from bzrformats.inventory_delta import InventoryDelta
    tinv = tgt.root_inventory

    def delta_of(records):
        d = []
        for r in records:
            fid = r[0]
            if fid is None:
                continue
            old = r[1][0] if r[3][0] else None
            new = r[1][1] if r[3][1] else None
            if old is None and new is None:
                continue
            ie = None
            if new is not None:
                ie = tinv.get_entry(bz.enc(fid)).copy()
            d.append((old, new, bz.enc(fid), ie))
        return d
    inv = _inv.mutable_inventory_from_tree(src)
    try:
        inv.apply_delta(InventoryDelta(delta_of(Rch)))
    except bfe.BzrFormatsError as e:
        return ("apply", "%s: %s" % (type(e).__name__, e))
    for r in must:
        fid = bz.enc(r[0])
        if r[3][1]:
            if not inv.has_id(fid):
                return ("must", ["selected id missing", r[0]])
            ie = inv.get_entry(fid)
            if (_s(ie.parent_id), ie.name, ie.kind) != (
                    r[4][1], r[5][1], tinv.get_entry(fid).kind):
                return ("must", ["selected id has not its target entry",
                                 r[0], _s(ie.parent_id), ie.name])
        elif inv.has_id(fid):
            return ("must", ["deleted id still present", r[0]])
    return None


def kinds(tier):
    ex = {"quick": 600, "thorough": 24000}
    return [
        Kind("2a", run, strategy=gen_case("2a"), examples=ex),
        Kind("pack-0.92", run, strategy=gen_case("pack-0.92"),
             examples={"quick": 400, "thorough": 16000}),
        Kind("git", run, strategy=gen_case("git"),
             examples={"quick": 500, "thorough": 20000}),
    ]


REGISTERED = True
LEVEL_TEXT = ("Differential and model-based sampling: for each generated "
              "pair of trees the optimised and the generic comparison are run "
              "on the same locked trees with several option sets and checked "
              "against each other, a model diff and a reconstruction of the "
              "target. A sample of pairs and filters, not exhaustive.")
LEVEL_NOTE = ("Trusts the tree model (vf/lib/treemodel.py), bzrformats' "
              "inventory delta application as validity checker, and treats "
              "git rename detection as outside the property (split form).")
