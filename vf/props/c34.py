"""C34 - importing then exporting a git commit reproduces it byte for byte.

A commit is drawn from a grammar over the fields the git mapping handles,
serialised by dulwich, parsed back (so the oracle only ever sees what dulwich
itself reads from those bytes), imported with BzrGitMapping.import_commit and
exported again with export_commit; the exported commit must have the same
bytes, hence the same SHA-1, and the revision id must be stable."""

from hypothesis import strategies as st

from vf.api import Kind, check, ok, rejected, trivial, violation, b2s, s2b

PROPERTY = "C34"
LEVEL = "exploration"
TECHNIQUE = ("Hypothesis grammar over git commit fields, round trip "
             "import_commit -> export_commit compared on raw bytes")
RULE = ("generated: dulwich Commit from a grammar over tree, 0-3 parents (never "
        "the all-zero SHA; each parent resolved either by the mapping itself or "
        "through a lookup table to a native revision id), author/committer "
        "'Name <mail>' equal or different, encoding header in {absent, UTF-8, "
        "ISO-8859-1, latin1, false} x text codec {utf-8, latin-1}, times, "
        "timezones incl. non-hour offsets and -0000 on either side, multi-line "
        "gpgsig, 0-2 mergetags, HG:rename-source / HG:extra headers with the "
        "recognised keys (unknown keys and unknown headers = expected refusal), "
        "message in {None, empty, text, text+newline, text with a --BZR--/--HG-- "
        "like trailer, message absent from the raw bytes}. Non-trivial: the "
        "commit combines >= 2 of {non-UTF-8 text, author != committer, neg-utc "
        "timezone, gpgsig, mergetag, extra header, missing message}; distinct by "
        "case hash.")
ASSUMPTIONS = [
    "dulwich (trusted base) parses and serialises commit objects faithfully; "
    "only commits whose fields dulwich re-serialises to the same bytes enter "
    "the oracle",
    "dulwich's serialiser always writes the blank line that ends the headers, "
    "so for a commit whose raw bytes have no message part at all the exported "
    "bytes are compared up to that one trailing newline",
    "the default mapping (BzrGitMappingv1) is the mapping under test",
]
NONTRIVIAL_FLOOR = {"quick": 300, "thorough": 5000}

ZERO = "0" * 40

HG_KNOWN = ["amend_source", "rebase_source", "absorb_source", "source",
            "intermediate-source", "topic", "_rewrite_noise"]
# characters on which str.splitlines() splits besides \n (a value containing
# one is its own failure class)
LINESEP = "\x0b\x0c\x1c\x1d\x1e\x85\u2028\u2029\r"


# ------------------------------------------------------------------ building

def _ident(pair, codec):
    name, mail = pair
    return ("%s <%s>" % (name, mail)).encode(codec)


def _tag_raw(t, codec):
    lines = [b"object " + t["object"].encode("ascii"),
             b"type commit",
             b"tag " + t["name"].encode(codec),
             b"tagger " + _ident(t["tagger"], codec) + b" " +
             str(t["time"]).encode("ascii") + b" " + _fmt_tz(t["tz"])]
    body = t["message"].encode(codec)
    if t["sig"]:
        body += (b"-----BEGIN PGP SIGNATURE-----\n\n" +
                 t["sig"].encode("ascii") +
                 b"\n-----END PGP SIGNATURE-----\n")
    return b"\n".join(lines) + b"\n\n" + body


def _fmt_tz(minutes):
    sign = b"-" if minutes < 0 else b"+"
    m = abs(minutes)
    return sign + ("%02d%02d" % (m // 60, m % 60)).encode("ascii")


def build_commit(case):
    """-> (parsed Commit, raw bytes, missing_message flag)."""
    from dulwich.objects import Commit, Tag
    codec = case["codec"]
    c = Commit()
    c.tree = case["tree"].encode("ascii")
    c.parents = [p["sha"].encode("ascii") for p in case["parents"]]
    c.committer = _ident(case["committer"], codec)
    c.author = c.committer if case["author"] is None else _ident(
        case["author"], codec)
    if case["enc"] is not None:
        c.encoding = case["enc"].encode("ascii")
    c.commit_time = case["ctime"]
    c.author_time = case["ctime"] if case["atime"] is None else case["atime"]
    c.commit_timezone = case["ctz"] * 60
    c.author_timezone = (case["ctz"] if case["atz"] is None
                         else case["atz"]) * 60
    if case["cneg"] and c.commit_timezone == 0:
        c._commit_timezone_neg_utc = True
    if case["aneg"] and c.author_timezone == 0:
        c._author_timezone_neg_utc = True
    if case["gpgsig"] is not None:
        c.gpgsig = case["gpgsig"].encode("latin-1")
    if case["mergetags"]:
        c.mergetag = [Tag.from_string(_tag_raw(t, codec))
                      for t in case["mergetags"]]
    for k, v in case["extra"]:
        c._extra.append((s2b(k), v.encode("utf-8")))
    msg = case["msg"]
    c.message = None if msg is None else msg.encode(codec)
    raw = c.as_raw_string()
    missing = bool(case["missing"]) and not c.message
    if missing:
        # the same headers with no blank line and no message part at all
        if not raw.endswith(b"\n\n"):
            raise AssertionError("harness: unexpected serialisation %r" % raw)
        raw = raw[:-1]
    parsed = Commit.from_string(raw)
    return parsed, raw, missing


def reserialise(c):
    """A fresh Commit carrying the fields dulwich parsed, serialised again."""
    from dulwich.objects import Commit
    n = Commit()
    n.tree = c.tree
    n.parents = list(c.parents)
    n.author = c.author
    n.committer = c.committer
    n.author_time = c.author_time
    n.commit_time = c.commit_time
    n.author_timezone = c.author_timezone
    n.commit_timezone = c.commit_timezone
    n._author_timezone_neg_utc = c._author_timezone_neg_utc
    n._commit_timezone_neg_utc = c._commit_timezone_neg_utc
    if c.encoding is not None:
        n.encoding = c.encoding
    if c.gpgsig is not None:
        n.gpgsig = c.gpgsig
    n.mergetag = list(c.mergetag)
    n._extra.extend(c._extra)
    n.message = c.message
    return n.as_raw_string()


def _rev_fields(rev):
    return {"revision_id": rev.revision_id,
            "parent_ids": list(rev.parent_ids),
            "properties": dict(rev.properties),
            "message": rev.message, "committer": rev.committer,
            "timestamp": rev.timestamp, "timezone": rev.timezone}


def features(case, c, missing):
    f = []
    if missing:
        f.append("missing-message")
    if c.mergetag:
        f.append("mergetag")
    if c._extra:
        f.append("extra")
    if c._author_timezone_neg_utc or c._commit_timezone_neg_utc:
        f.append("neg-utc")
    if c.gpgsig:
        f.append("gpgsig")
    text = c.author + c.committer + (c.message or b"")
    try:
        text.decode("utf-8")
        non_utf8 = False
    except UnicodeDecodeError:
        non_utf8 = True
    if non_utf8 or (c.encoding is not None and
                    c.encoding.lower() not in (b"utf-8",)):
        f.append("non-utf8")
    if c.author != c.committer:
        f.append("author-ne-committer")
    return f


# ------------------------------------------------------------------ oracle

def run(case, env):
    from breezy.git.mapping import (BzrGitMappingv1, UnknownCommitExtra,
                                    UnknownMercurialCommitExtra)
    mp = BzrGitMappingv1()
    c, raw, missing = build_commit(case)
    feats = features(case, c, missing)
    label = "+".join(feats[:2]) if len(feats) >= 2 else None
    if not missing and reserialise(c) != raw:
        return rejected("dulwich-does-not-reserialise-identically")
    if missing and reserialise(c) != raw + b"\n":
        return rejected("dulwich-does-not-reserialise-identically")
    check(c.message is None if missing else True,
          "C34/harness-missing-message-not-none", repr(raw))

    native = {p["sha"].encode("ascii"): p["native"].encode("utf-8")
              for p in case["parents"] if p["native"] is not None}
    back = {v: k for k, v in native.items()}

    def lookup_parent_revid(sha):
        return native[sha]          # KeyError -> the mapping's own revid

    def parent_lookup(revid):
        if revid in back:
            return back[revid]
        return mp.revision_id_bzr_to_foreign(revid)[0]

    # strict import refuses unknown headers and unknown hg keys (documented);
    # which of the two refusal types is reported first is not the property's
    # business
    unknown = [[k, v] for k, v in case["extra"]
               if k not in ("HG:rename-source", "HG:extra") or
               (k == "HG:extra" and v.split(":", 1)[0] not in HG_KNOWN)]
    try:
        rev, roundtrip_revid, verifiers = mp.import_commit(
            c, lookup_parent_revid, strict=True)
    except (UnknownMercurialCommitExtra, UnknownCommitExtra) as e:
        check(unknown, "C34/recognised-extra-refused", [case["extra"], repr(e)])
        return rejected(type(e).__name__, label=label)
    check(not unknown, "C34/unknown-extra-accepted-in-strict-mode",
          [case["extra"]])

    # revision id: derived from the SHA, stable, invertible
    sha = c.id
    revid = mp.revision_id_foreign_to_bzr(sha)
    check(rev.revision_id == revid, "C34/revision-id-not-derived-from-sha",
          [rev.revision_id, revid])
    check(mp.revision_id_foreign_to_bzr(sha) == revid,
          "C34/revision-id-unstable", [revid])
    got_sha, got_mp = mp.revision_id_bzr_to_foreign(revid)
    check(got_sha == sha, "C34/revision-id-does-not-invert", [revid, got_sha])
    # failure classes with an open finding are deferred so that the checks
    # behind them still run; anything else raises at once
    pending = []
    try:
        got_revid = mp.get_revision_id(c)
    except LookupError as e:
        if case["enc"] != "false" or isinstance(e, (KeyError, IndexError)):
            raise
        pending.append(violation(
            "C34/get_revision_id-fails-for-encoding-false",
            [repr(raw), repr(e)], label=label))
    else:
        check(got_revid == revid, "C34/get_revision_id-differs",
              [got_revid, revid])
    check(rev.foreign_revid == sha, "C34/foreign-revid-differs",
          [rev.foreign_revid, sha])
    # parents as the lookups say
    want_parents = [native.get(p, mp.revision_id_foreign_to_bzr(p))
                    for p in c.parents]
    check(list(rev.parent_ids) == want_parents, "C34/parent-ids-differ",
          [list(rev.parent_ids), want_parents])
    # importing twice gives equal revisions
    rev2, _, _ = mp.import_commit(Commit_from(raw), lookup_parent_revid,
                                  strict=True)
    check(_rev_fields(rev) == _rev_fields(rev2), "C34/import-not-stable",
          [repr(_rev_fields(rev)), repr(_rev_fields(rev2))])

    # export
    try:
        c2 = mp.export_commit(rev, c.tree, parent_lookup, True, None)
    except LookupError as e:
        if case["enc"] == "false" and not isinstance(e, (KeyError,
                                                          IndexError)):
            pending.append(violation("C34/export-fails-for-encoding-false",
                                     [repr(raw), repr(e)], label=label))
            return pending[0]
        raise
    except ValueError as e:
        if _has_linesep(case):
            pending.append(violation(
                "C34/extra-value-with-line-separator-character",
                [repr(raw), repr(e)], label=label))
            return pending[0]
        raise
    except AttributeError as e:
        if missing:
            pending.append(violation("C34/export-fails-for-missing-message",
                                     [repr(raw), repr(e)], label=label))
            return pending[0]
        raise
    raw2 = c2.as_raw_string()
    if missing:
        check(c2.message is None, "C34/missing-message-exported-as-message",
              [repr(raw), repr(raw2)])
        check(raw2 in (raw, raw + b"\n"),
              "C34/missing-message-bytes-differ", [repr(raw), repr(raw2)])
    else:
        if raw2 != raw:
            return violation(_diff_signature(case, c, c2),
                             [repr(raw), repr(raw2),
                              repr(dict(rev.properties))], label=label)
        check(c2.id == sha, "C34/sha-differs", [c2.id, sha])
    if pending:
        return pending[0]
    if label is None:
        return trivial()
    return ok(label)


def Commit_from(raw):
    from dulwich.objects import Commit
    return Commit.from_string(raw)


def _has_linesep(case):
    return any(ch in v for k, v in case["extra"] for ch in LINESEP)


def _diff_signature(case, c, c2):
    """Name the field whose bytes differ (specific failure class)."""
    if _has_linesep(case):
        return "C34/extra-value-with-line-separator-character"
    for name in ("tree", "parents", "author", "committer", "author_time",
                 "commit_time", "author_timezone", "commit_timezone",
                 "_author_timezone_neg_utc", "_commit_timezone_neg_utc",
                 "encoding", "gpgsig", "message"):
        if getattr(c, name) != getattr(c2, name):
            return "C34/bytes-differ:" + name.strip("_")
    if [t.as_raw_string() for t in c.mergetag] != [
            t.as_raw_string() for t in c2.mergetag]:
        return "C34/bytes-differ:mergetag"
    if list(c._extra) != list(c2._extra):
        return "C34/bytes-differ:extra"
    return "C34/bytes-differ:serialisation"


# --------------------------------------------------------------- generation

_hex = "0123456789abcdef"
sha_s = st.text(alphabet=_hex, min_size=40, max_size=40).filter(
    lambda s: s != ZERO)

U8_NAME = "abÅéß,.-'λ☃𝄞"
L1_NAME = "abÅéß,.-'ÿµ"


def _name(alpha):
    """Mostly names as git writes them (no blank at either end); sometimes
    the empty name or a blank at an end, which other writers produce and the
    mapping must hand back unchanged as well."""
    inner = st.text(alphabet=alpha + " ", min_size=0, max_size=6)
    edge = st.sampled_from(sorted(set(alpha)))
    core = st.tuples(edge, inner, st.one_of(st.just(""), edge)).map(
        lambda t: t[0] + ((t[1] + t[2]) if t[2] else t[1].rstrip(" ")))
    pad = st.sampled_from([""] * 10 + [" ", "  "])
    return st.one_of(
        st.tuples(pad, core, pad).map("".join),
        st.tuples(pad, core, pad).map("".join),
        st.tuples(pad, core, pad).map("".join),
        st.sampled_from(["", " "]))


def _person(alpha):
    mail = st.one_of(
        st.just(""),
        st.tuples(st.text(alphabet="ab.+", min_size=1, max_size=4),
                  st.sampled_from(["example.com", "x", "h.fr"])
                  ).map(lambda t: t[0] + "@" + t[1]))
    return st.tuples(_name(alpha), mail).map(list)


_tz = st.one_of(
    st.sampled_from([0, 0, 60, -60, 330, -210, 345, 840, -720, 13 * 60 + 45]),
    st.integers(-12 * 60, 14 * 60))
_time = st.one_of(st.integers(0, 2 ** 31), st.integers(0, 10),
                  st.integers(2 ** 31, 2 ** 36))
_sigbody = st.lists(st.text(alphabet="ABCDwxyz0189+/=", min_size=1,
                            max_size=12), min_size=1, max_size=3).map(
                                "\n".join)
# signatures other tools write are not always ASCII armour
_sigbody_raw = st.one_of(_sigbody, _sigbody, _sigbody.map(
    lambda s: s + "\n\xe9\xff\x80 raw"))


@st.composite
def gen_case(draw):
    enc = draw(st.sampled_from([None, None, "UTF-8", "utf-8", "ISO-8859-1",
                                "latin1", "false"]))
    if enc in (None, "false"):
        codec = draw(st.sampled_from(["utf-8", "utf-8", "latin-1"]))
    elif enc.lower() == "utf-8":
        codec = "utf-8"
    else:
        codec = "latin-1"
    alpha = U8_NAME if codec == "utf-8" else L1_NAME
    person = _person(alpha)
    committer = draw(person)
    author = draw(st.one_of(st.none(), person))
    nparents = draw(st.sampled_from([0, 1, 1, 2, 3]))
    parents = []
    seen = set()
    for i in range(nparents):
        s = draw(sha_s)
        if s in seen:
            continue
        seen.add(s)
        native = None
        if draw(st.integers(0, 3)) == 0:
            native = "joe@example.com-2011%04d-%s" % (
                i, draw(st.text(alphabet="abcxyz09", min_size=4, max_size=8)))
        parents.append({"sha": s, "native": native})
    ctz = draw(_tz)
    atz = draw(st.one_of(st.none(), _tz))
    # push the -0000 case: zero offsets are what carry the neg-utc flag
    if draw(st.integers(0, 3)) == 0:
        ctz = 0
    if draw(st.integers(0, 3)) == 0:
        atz = 0
    cneg = draw(st.booleans())
    aneg = draw(st.booleans())
    gpgsig = None
    if draw(st.integers(0, 2)) == 0:
        gpgsig = ("-----BEGIN PGP SIGNATURE-----\n" +
                  draw(st.sampled_from(["", "Version: GnuPG v1\n"])) + "\n" +
                  draw(_sigbody_raw) + "\n-----END PGP SIGNATURE-----" +
                  draw(st.sampled_from(["", "\n"])))
    mergetags = []
    for i in range(draw(st.sampled_from([0, 0, 0, 1, 1, 2]))):
        mergetags.append({
            "object": draw(sha_s),
            "name": draw(st.text(alphabet="v0123.-abé",
                                 min_size=1, max_size=6)),
            "tagger": draw(person),
            "time": draw(_time), "tz": draw(_tz),
            "message": draw(st.text(alphabet=alpha + " \n", max_size=10)
                            ) + "\n",
            "sig": draw(st.one_of(st.none(), _sigbody)),
        })
    extra = []
    for i in range(draw(st.sampled_from([0, 0, 0, 1, 1, 2, 3]))):
        which = draw(st.integers(0, 17))
        valtext = st.text(alphabet="abc019 :%é/" + "𝄞", min_size=0,
                          max_size=8)
        if draw(st.integers(0, 15)) == 0:
            valtext = st.tuples(valtext, st.sampled_from(sorted(LINESEP)),
                                valtext).map("".join)
        if which <= 5:
            extra.append(["HG:rename-source", draw(st.one_of(
                st.just("hg"), valtext.filter(lambda s: s != "")))])
        elif which <= 15:
            key = draw(st.sampled_from(HG_KNOWN))
            extra.append(["HG:extra", key + ":" + draw(valtext)])
        elif which == 16:
            extra.append(["HG:extra", draw(st.sampled_from(
                ["branch", "close", "amend_sourcex", "Topic"])) + ":" +
                draw(valtext)])
        else:
            extra.append([draw(st.sampled_from(
                ["HG:rename", "svn-id", "x-custom", "hg:extra"])),
                draw(valtext.filter(lambda s: s != ""))])
    mk = draw(st.sampled_from(["none", "empty", "text", "text", "text-nl",
                               "text-nl", "trailer", "missing"]))
    body = draw(st.text(alphabet=alpha + " \n", min_size=1, max_size=14))
    missing = False
    if mk == "none":
        msg = None
    elif mk == "empty":
        msg = ""
    elif mk == "missing":
        msg = None
        missing = True
    elif mk == "text":
        msg = body.rstrip("\n") or "m"
    elif mk == "text-nl":
        msg = body.rstrip("\n") + "\n"
    else:
        msg = body + draw(st.sampled_from([
            "\n--BZR--\nrevision-id: joe@example.com-1\n",
            "\n--BZR--\nproperty-x: y\n",
            "\n--BZR--\n",
            "\n--HG--\nbranch : stable\n",
            "\n--HG--\nrename : a => b\nextra : k : v\n",
            "\ngit-svn-id: http://svn.example.com/r@12 abcd-ef\n",
        ]))
    return {"tree": draw(sha_s), "parents": parents, "enc": enc,
            "codec": codec, "committer": committer, "author": author,
            "ctime": draw(_time), "atime": draw(st.one_of(st.none(), _time)),
            "ctz": ctz, "atz": atz, "cneg": cneg, "aneg": aneg,
            "gpgsig": gpgsig, "mergetags": mergetags, "extra": extra,
            "msg": msg, "missing": missing}


# ------------------------------------------------------ roundtrip metadata

def run_metadata(case, env):
    """The --BZR-- trailer that carries what git cannot: injected into a
    commit message and extracted again it gives back the message and the
    supplement, and the bytes are a fixed point of extract + inject (which is
    what byte-identical re-export of a roundtripped commit rests on)."""
    from breezy.git import roundtrip as R
    enc_ = case["codec"]
    msg = case["msg"].encode(enc_)
    sup = R.CommitSupplement()
    if case["revid"] is not None:
        sup.revision_id = case["revid"].encode("utf-8")
    if case["parents"]:
        sup.explicit_parent_ids = tuple(p.encode("utf-8")
                                        for p in case["parents"])
    for k, v in case["props"]:
        sup.properties[k.encode("utf-8")] = v.encode("utf-8")
    if case["testament"] is not None:
        sup.verifiers[b"testament3-sha1"] = case["testament"].encode("ascii")
    colon = any(":" in k for k, v in case["props"])
    raw = R.inject_bzr_metadata(msg, sup, enc_)
    check(isinstance(raw, bytes), "C34/injected-message-not-bytes", [case])
    empty = not (case["revid"] or case["parents"] or case["props"] or
                 case["testament"])
    if empty:
        # nothing to carry: the message stays as it is
        check(raw == msg, "C34/empty-supplement-changes-message",
              [case, repr(raw)])
        return trivial()
    check(raw.startswith(msg + b"\n--BZR--\n"),
          "C34/injected-trailer-not-appended", [case, repr(raw)])
    try:
        back_msg, back = R.extract_bzr_metadata(raw)
    except ValueError:
        if colon:
            return violation(
                "C34/metadata-property-name-with-colon-not-parsed",
                [case, repr(raw)])
        raise
    check(back is not None, "C34/injected-metadata-not-found", [case])
    check(back_msg == msg, "C34/metadata-extraction-changes-message",
          [case, repr(back_msg)])
    got = (back.revision_id, back.explicit_parent_ids,
           dict(back.properties), dict(back.verifiers))
    want = (sup.revision_id, sup.explicit_parent_ids, dict(sup.properties),
            dict(sup.verifiers))
    if got != want and colon:
        return violation("C34/metadata-property-name-with-colon-not-parsed",
                         [case, repr(got), repr(want)])
    check(got[0] == want[0], "C34/metadata-revision-id-differs",
          [case, repr(got[0])])
    check(got[1] == want[1], "C34/metadata-parent-ids-differ",
          [case, repr(got[1])])
    check(got[2] == want[2], "C34/metadata-properties-differ",
          [case, repr(got[2]), repr(want[2])])
    check(got[3] == want[3], "C34/metadata-verifiers-differ",
          [case, repr(got[3])])
    again = R.inject_bzr_metadata(back_msg, back, enc_)
    check(again == raw, "C34/metadata-bytes-not-a-fixed-point",
          [case, repr(again), repr(raw)])
    # a message without trailer is left alone
    m2, none = R.extract_bzr_metadata(msg)
    check(m2 == msg and none is None, "C34/plain-message-gets-metadata",
          [case])
    multi = any("\n" in v for k, v in case["props"])
    lab = "metadata"
    if case["parents"]:
        lab += "+ghost-parents"
    if multi:
        lab += "+multi-line-property"
    return ok(lab)


_PROPNAME = st.one_of(
    st.sampled_from(["branch-nick", "authors", "bugs", "rebase-of",
                     "deb-md5", "x"]),
    st.text(alphabet="abcz-_.09", min_size=1, max_size=8),
    st.sampled_from(["hg:extra:branch", "svn:revno"]))
_PROPVAL = st.one_of(
    st.sampled_from(["", "trunk", "a b", " lead", "trail ", "l1\nl2",
                     "l1\n\nl3", "ends\n", "\n", "k: v", "\xe9\u65e5"]),
    st.text(alphabet="ab :\n\xe9-", max_size=10))
_REVIDS = st.one_of(
    st.sampled_from(["joe@example.com-20110101120000-abcdef",
                     "rev-\xe9-1", "svn-v4:uuid:trunk:12"]),
    st.text(alphabet="abc019@.-:\xe9", min_size=1, max_size=12))


@st.composite
def gen_metadata(draw):
    codec = draw(st.sampled_from(["utf-8", "utf-8", "latin-1"]))
    alpha = U8_NAME if codec == "utf-8" else L1_NAME
    msg = draw(st.text(alphabet=alpha + " \n", max_size=16))
    if "\n--BZR--\n" in msg:
        msg = "m"
    props = draw(st.lists(st.tuples(_PROPNAME, _PROPVAL), max_size=4,
                          unique_by=lambda t: t[0]))
    return {"codec": codec, "msg": msg,
            "revid": draw(st.one_of(st.none(), _REVIDS)),
            "parents": draw(st.one_of(
                st.just([]), st.just([]),
                st.lists(_REVIDS, min_size=1, max_size=3))),
            "props": [list(p) for p in props],
            "testament": draw(st.one_of(
                st.none(), st.text(alphabet="0123456789abcdef", min_size=40,
                                   max_size=40)))}


def kinds(tier):
    return [
        Kind("commit-grammar", run, strategy=gen_case(),
             examples={"quick": 12000, "thorough": 800000}),
        Kind("roundtrip-metadata", run_metadata, strategy=gen_metadata(),
             examples={"quick": 3000, "thorough": 100000}),
    ]


REGISTERED = True
LEVEL_TEXT = ("Commits are sampled from a grammar that combines every field the "
              "mapping handles (encodings x identities x timezones x signatures "
              "x merge tags x extra headers x message shapes); each is imported "
              "and exported and the raw bytes compared. A sample of an unbounded "
              "domain: exploration.")
LEVEL_NOTE = ("dulwich is the trusted parser/serialiser; identities have the "
              "'Name <mail>' shape, header values are single-line, times are "
              "non-negative, timezone offsets are whole minutes.")
