"""C18 - merge decision rules: swap symmetry, LCA extension consistency,
an unchanged side never wins against a changed one."""

import itertools

from hypothesis import strategies as st

from vf.api import Kind, check, ok, trivial

PROPERTY = "C18"
LEVEL = "exploration"
TECHNIQUE = ("exhaustive enumeration of the finite value domain + Hypothesis "
             "over arbitrary comparable values, algebraic-law oracle")
RULE = ("enumerated: every assignment of values {0..3} to base, this, other and "
        "to 0-3 LCAs, x allow_overriding_lca; generated: the same shape over "
        "None/str/tuple values with up to 5 LCAs. Non-trivial: this, other and "
        "at least one ancestor value pairwise distinct, or >= 2 distinct LCA "
        "values. Distinct by construction (enumeration) / by case hash.")
ASSUMPTIONS = ["the decision functions only use == and set membership on the "
               "values (read in breezy/merge.py)"]

SWAP = {"this": "other", "other": "this", "conflict": "conflict"}


def _fns():
    from breezy.merge import Merge3Merger
    return Merge3Merger._three_way, Merge3Merger._lca_multi_way


def _val(v):
    # JSON case -> hashable python value
    if isinstance(v, list):
        return tuple(_val(x) for x in v)
    return v


def run(case, env):
    three, lca = _fns()
    b = _val(case["base"])
    t = _val(case["this"])
    o = _val(case["other"])
    lcas = [_val(x) for x in case["lcas"]]
    allow = case["allow"]
    res = {}
    r3 = three(b, o, t)
    r3s = three(b, t, o)
    check(r3 in SWAP, "C18/three_way-bad-result", [case, r3])
    rl = lca((b, list(lcas)), o, t, allow_overriding_lca=allow)
    rls = lca((b, list(lcas)), t, o, allow_overriding_lca=allow)
    check(rl in SWAP, "C18/lca-bad-result", [case, rl])
    # (4) agreement of both sides -> 'this'
    if o == t:
        check(r3 == "this" and r3s == "this", "C18/three_way-tie-break",
              [case, r3, r3s])
        check(rl == "this" and rls == "this", "C18/lca-tie-break",
              [case, rl, rls])
    else:
        # (1) swap law
        check(r3s == SWAP[r3], "C18/three_way-not-symmetric", [case, r3, r3s])
        check(rls == SWAP[rl], "C18/lca-not-symmetric", [case, rl, rls])
    # (2) all ancestors carry the same value v -> plain three-way on v
    if not lcas:
        check(rl == three(b, o, t), "C18/lca-no-lcas-differs-from-three_way",
              [case, rl])
    elif len(set(lcas)) == 1:
        v = lcas[0]
        check(rl == three(v, o, t), "C18/lca-equal-lcas-differs-from-three_way",
              [case, rl, three(v, o, t)])
    # (3) an unchanged side never wins against a changed side
    anc = set(lcas) if lcas else {b}
    if t in anc and o not in anc:
        check(rl != "this", "C18/lca-unchanged-this-wins", [case, rl])
    if o in anc and t not in anc:
        check(rl != "other", "C18/lca-unchanged-other-wins", [case, rl])
    if t == b and o != b:
        check(r3 == "other", "C18/three_way-unchanged-this-wins", [case, r3])
    if o == b and t != b:
        check(r3 == "this", "C18/three_way-unchanged-other-wins", [case, r3])
    if t != b and o != b and t != o:
        check(r3 == "conflict", "C18/three_way-both-changed-no-conflict",
              [case, r3])
    # non-triviality
    ancs = [b] + lcas
    if len(set(lcas)) >= 2:
        return ok("multi-lca-values")
    if t != o and any(a != t and a != o for a in ancs):
        return ok("this-other-ancestor-distinct")
    return trivial()


def enum_cases(tier):
    dom = (0, 1, 2, 3)
    for n in range(0, 4):
        for b, t, o in itertools.product(dom, repeat=3):
            for lcas in itertools.product(dom, repeat=n):
                for allow in (True, False):
                    yield {"base": b, "this": t, "other": o,
                           "lcas": list(lcas), "allow": allow}


_value = st.one_of(
    st.none(), st.integers(0, 3), st.sampled_from(["a", "b", "", "file", "dir"]),
    st.tuples(st.sampled_from(["a", "b", None]), st.integers(0, 2)).map(list),
    st.booleans())


@st.composite
def gen_case(draw):
    pool = draw(st.lists(_value, min_size=1, max_size=4))
    pick = st.sampled_from(pool)
    return {"base": draw(pick), "this": draw(pick), "other": draw(pick),
            "lcas": draw(st.lists(pick, max_size=5)),
            "allow": draw(st.booleans())}


def kinds(tier):
    return [
        Kind("enum-0..3", run, enumerate=enum_cases, exhaustive=True,
             hash_cases=False),
        Kind("generated-values", run, strategy=gen_case(),
             examples={"quick": 20000, "thorough": 500000}),
    ]

REGISTERED = True
LEVEL_TEXT = ("The two decision functions are finite-domain: every assignment of "
              "4 values to base/this/other and up to 3 LCAs (10 880 tuples) is "
              "enumerated and all laws of the property are checked on each; "
              "arbitrary value types are sampled on top. For the bounded domain "
              "this is a complete decision, beyond it a sample.")
LEVEL_NOTE = ("Assumes the functions depend on their arguments only through == / "
              "set membership, so 4 symbols suffice to distinguish base, this, "
              "other and one more LCA value; more than 3 LCAs are only sampled.")
