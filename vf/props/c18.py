"""C18 - merge decision rules: swap symmetry, LCA extension consistency,
an unchanged side never wins against a changed one."""

import itertools

from hypothesis import strategies as st

from vf.api import Kind, check, ok, trivial

PROPERTY = "C18"
LEVEL = "exploration"
TECHNIQUE = ("exhaustive enumeration of the finite value domain + Hypothesis "
             "over arbitrary comparable values, algebraic-law oracle")
RULE = ("enumerated: every assignment of values {0..3} to base, this, other and "
        "to 0-3 LCAs, x allow_overriding_lca; enum-blocks: 6 symbols x 0-4 LCAs "
        "and 4 symbols x 5-6 LCAs over ints, 5 symbols x 0-4 LCAs over six "
        "further value families (big ints, file ids, names, (kind, sha1) pairs, "
        "None-or-id, None/False/True/''/b''), every argument a distinct object; "
        "generated: the same shape over "
        "None/str/tuple values with up to 5 LCAs. Non-trivial: this, other and "
        "at least one ancestor value pairwise distinct, or >= 2 distinct LCA "
        "values. Distinct by construction (enumeration) / by case hash.")
ASSUMPTIONS = ["the decision functions only use == and set membership on the "
               "values (read in breezy/merge.py)"]

SWAP = {"this": "other", "other": "this", "conflict": "conflict"}


def _fns():
    from breezy.merge import Merge3Merger
    return Merge3Merger._three_way, Merge3Merger._lca_multi_way


def _val(v):
    # JSON case -> hashable python value. Equal values are made *distinct
    # objects* wherever Python allows it (the decision must rest on ==, as it
    # does for the file ids, names and (kind, sha1) pairs of a real merge)
    if isinstance(v, list):
        return tuple(_val(x) for x in v)
    if isinstance(v, str) and len(v) > 1:
        return (v + " ")[:-1]
    return v


# value families of the block enumeration: symbol i -> a fresh object
FAMILIES = {
    "int": lambda i: i,
    "bigint": lambda i: 10 ** 30 + i,
    "file-id": lambda i: b"file-%d-id" % i,
    "name": lambda i: "n\xe4me-%d" % i,
    "content-pair": lambda i: (("file", "symlink", "directory")[i % 3],
                               b"sha1-%d" % (i // 3)),
    "parent-or-none": lambda i: None if i == 0 else b"dir-%d-id" % i,
    "exec": lambda i: (None, False, True, "", b"", ())[i],   # falsy ones too
}


def run(case, env):
    b = _val(case["base"])
    t = _val(case["this"])
    o = _val(case["other"])
    lcas = [_val(x) for x in case["lcas"]]
    label = laws(b, t, o, lcas, case["allow"], case)
    return ok(label) if label else trivial()


def laws(b, t, o, lcas, allow, case):
    """All laws of the property on one assignment; -> non-triviality label."""
    three, lca = _fns()
    r3 = three(b, o, t)
    r3s = three(b, t, o)
    check(r3 in SWAP, "C18/three_way-bad-result", [case, r3])
    rl = lca((b, list(lcas)), o, t, allow_overriding_lca=allow)
    rls = lca((b, list(lcas)), t, o, allow_overriding_lca=allow)
    check(rl in SWAP, "C18/lca-bad-result", [case, rl])
    # (4) agreement of both sides -> 'this'
    if o == t:
        check(r3 == "this" and r3s == "this", "C18/three_way-tie-break",
              [case, r3, r3s])
        check(rl == "this" and rls == "this", "C18/lca-tie-break",
              [case, rl, rls])
    else:
        # (1) swap law
        check(r3s == SWAP[r3], "C18/three_way-not-symmetric", [case, r3, r3s])
        check(rls == SWAP[rl], "C18/lca-not-symmetric", [case, rl, rls])
    # (2) all ancestors carry the same value v -> plain three-way on v
    if not lcas:
        check(rl == three(b, o, t), "C18/lca-no-lcas-differs-from-three_way",
              [case, rl])
    elif len(set(lcas)) == 1:
        v = lcas[0]
        check(rl == three(v, o, t), "C18/lca-equal-lcas-differs-from-three_way",
              [case, rl, three(v, o, t)])
    # (3) an unchanged side never wins against a changed side
    anc = set(lcas) if lcas else {b}
    if t in anc and o not in anc:
        check(rl != "this", "C18/lca-unchanged-this-wins", [case, rl])
    if o in anc and t not in anc:
        check(rl != "other", "C18/lca-unchanged-other-wins", [case, rl])
    if t == b and o != b:
        check(r3 == "other", "C18/three_way-unchanged-this-wins", [case, r3])
    if o == b and t != b:
        check(r3 == "this", "C18/three_way-unchanged-other-wins", [case, r3])
    if t != b and o != b and t != o:
        check(r3 == "conflict", "C18/three_way-both-changed-no-conflict",
              [case, r3])
    # non-triviality
    ancs = [b] + lcas
    if len(set(lcas)) >= 2:
        return "multi-lca-values"
    if t != o and any(a != t and a != o for a in ancs):
        return "this-other-ancestor-distinct"
    return None


def enum_cases(tier):
    dom = (0, 1, 2, 3)
    for n in range(0, 4):
        for b, t, o in itertools.product(dom, repeat=3):
            for lcas in itertools.product(dom, repeat=n):
                for allow in (True, False):
                    yield {"base": b, "this": t, "other": o,
                           "lcas": list(lcas), "allow": allow}


def block_domain(fam):
    """(number of symbols, LCA counts) enumerated for a value family."""
    if fam == "int":
        return [(6, (0, 1, 2, 3, 4)), (4, (5, 6))]
    return [(5, (0, 1, 2, 3, 4))]


def enum_blocks(tier):
    for fam in FAMILIES:
        for syms, counts in block_domain(fam):
            for n in counts:
                for b, t, o in itertools.product(range(syms), repeat=3):
                    yield {"fam": fam, "syms": syms, "n": n, "base": b,
                           "this": t, "other": o}


def run_block(case, env):
    """One block = fixed (base, this, other) symbols, every assignment of
    `syms` symbols to `n` LCAs x allow_overriding_lca. Every argument of every
    call is its own object (equal symbols are equal, not identical, values)."""
    mk = FAMILIES[case["fam"]]
    rng = range(case["syms"])
    n_eval = nt = 0
    for lc in itertools.product(rng, repeat=case["n"]):
        for allow in (True, False):
            b, t, o = mk(case["base"]), mk(case["this"]), mk(case["other"])
            lcas = [mk(i) for i in lc]
            la = laws(b, t, o, lcas, allow,
                      (case["fam"], b, t, o, lcas, allow))
            n_eval += 1
            if la:
                nt += 1
    return ok("block:%s:%d-lcas" % (case["fam"], case["n"]) if nt else None,
              n=n_eval, nt=nt)


_value = st.one_of(
    st.none(), st.integers(0, 3), st.sampled_from(["a", "b", "", "file", "dir"]),
    st.tuples(st.sampled_from(["a", "b", None]), st.integers(0, 2)).map(list),
    st.booleans())


@st.composite
def gen_case(draw):
    pool = draw(st.lists(_value, min_size=1, max_size=4))
    pick = st.sampled_from(pool)
    return {"base": draw(pick), "this": draw(pick), "other": draw(pick),
            "lcas": draw(st.lists(pick, max_size=5)),
            "allow": draw(st.booleans())}


def kinds(tier):
    return [
        Kind("enum-0..3", run, enumerate=enum_cases, exhaustive=True,
             hash_cases=False),
        Kind("enum-blocks", run_block, enumerate=enum_blocks, exhaustive=True,
             hash_cases=False),
        Kind("generated-values", run, strategy=gen_case(),
             examples={"quick": 20000, "thorough": 500000}),
    ]

REGISTERED = True
LEVEL_TEXT = ("The two decision functions are finite-domain: every assignment of "
              "4 values to base/this/other and up to 3 LCAs (10 880 tuples), of 6 "
              "values with up to 4 LCAs and of 4 values with 5-6 LCAs (2.5 million "
              "tuples over seven value families) is "
              "enumerated and all laws of the property are checked on each; "
              "arbitrary value types are sampled on top. For the bounded domain "
              "this is a complete decision, beyond it a sample.")
LEVEL_NOTE = ("Assumes the functions depend on their arguments only through == / "
              "set membership, so 6 symbols suffice to distinguish base, this, "
              "other and three more LCA values; more than 6 LCAs are not tried.")
