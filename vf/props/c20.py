"""C20 - conflict and merge-hash records persist and resolve faithfully."""

import os

from hypothesis import strategies as st

from vf.api import Kind, check, ok, trivial

PROPERTY = "C20"
LEVEL = "exploration"
TECHNIQUE = ("Hypothesis over conflict lists / merge-hash dicts / selections on "
             "real working trees; round-trip oracle and an independent "
             "selection model")
RULE = ("A case = a working tree with 2-5 versioned files (0-2 directories, "
        "unicode names, explicit file ids incl. non-ASCII), a list of 0-12 "
        "conflicts of the ten registered types whose path / conflict_path are "
        "tree paths, tree paths with a suffix (prefix but not child), children "
        "of tree paths or arbitrary unicode without CR/LF/NUL (spaces, quotes, "
        "'#', ':', tabs and other control characters, NEL/LS, leading/trailing "
        "blanks, non-BMP, sometimes empty), file ids = ids of tree paths or "
        "arbitrary unicode without whitespace, actions from the types' "
        "vocabulary; a merge-modified dict over versioned paths (right / wrong "
        "hash) and unversioned paths, followed by 0-2 tree edits (modify, "
        "unversion, rename); a selection of 0-3 paths (tree paths, directories, "
        "conflict paths, '', unknown) x recurse x ignore_misses. Non-trivial: "
        ">= 2 conflict types with a non-ASCII or quote/blank/control path; a "
        "selection that is a proper non-empty subset (labelled by what "
        "selected: path, recursion, file id); a merge-modified dict that is "
        "filtered. Every case with a non-empty list also overwrites the "
        "stored list with a copy that differs in exactly one attribute of one "
        "conflict (conflict_path, file_id, action, path, conflict_file_id) "
        "and back, re-opening and comparing attribute by attribute each "
        "time. Distinct by case hash.")
ASSUMPTIONS = [
    "paths are tree-relative without '.'/'..' components (resolve() deletes "
    "<path>.THIS/.BASE/.OTHER below the tree root)",
    "file ids are valid UTF-8 without whitespace (as_stanza decodes them)",
    "rio (bzrformats) is part of the subject's serialisation path",
]
LEVEL_TEXT = ("Sampled lists on real 2a working trees re-opened between write "
              "and read; every attribute of every conflict is compared (the "
              "classes' own == ignores conflict_path for path conflicts).")
LEVEL_NOTE = ("The selection model is written from the select_conflicts "
              "docstring and the property text; dirstate hashing is trusted "
              "for get_file_sha1.")
REGISTERED = True
NONTRIVIAL_FLOOR = {"quick": 600, "thorough": 20000}

SIMPLE = ["text conflict"]
PATHY = ["contents conflict", "path conflict"]
HANDLED = ["unversioned parent", "missing parent", "deleting parent",
           "non-directory parent"]
HANDLED_PATH = ["duplicate id", "duplicate", "parent loop"]
ACTIONS = ["Created directory", "Moved existing file to", "Cancelled move",
           "Not deleting", "Versioned directory", "Unversioned existing file"]

_COMPS = ["a", "ab", "a b", "b", "é", "\U0001F600", "#x", '"q"', "it's",
          " lead", "trail ", "a.THIS", "c:d", "ü-1"]
_ODD = list("ab ab\"'#:=\t\x0b\x0c\x01\x1c\x7f\x85\u2028\xa0é\U0001F600\\%")


def _comp():
    return st.one_of(
        st.sampled_from(_COMPS),
        st.text(alphabet=st.sampled_from(_ODD), min_size=1, max_size=5).map(
            lambda s: "x" + s if s in (".", "..") else s))


def _fid_text():
    return st.text(alphabet=st.sampled_from(list("abé-_0\U0001F600:#\"'")),
                   min_size=1, max_size=6)


@st.composite
def gen_case(draw, below_file=False, helper_dir=False):
    comps = draw(st.lists(st.sampled_from(_COMPS), min_size=3, max_size=7,
                          unique=True))
    # a directory never carries a helper-file name (open finding: resolve
    # aborts when cleanup meets a non-empty directory <path>.THIS)
    comps.sort(key=lambda c: c.endswith(".THIS"))
    ndirs = draw(st.integers(0, min(2, len(comps) - 2)))
    if helper_dir:
        comps = ["a.THIS"] + [c for c in comps if c != "a.THIS"]
        ndirs = 1
    dirs = []
    for i in range(ndirs):
        parent = draw(st.sampled_from([""] + dirs))
        dirs.append((parent + "/" if parent else "") + comps[i])
    names = comps[ndirs:]
    files = []
    for i, nm in enumerate(names[:5]):
        parent = draw(st.sampled_from([""] + dirs))
        files.append((parent + "/" if parent else "") + nm)
    fids = draw(st.lists(_fid_text(), min_size=len(dirs) + len(files),
                         max_size=len(dirs) + len(files), unique=True))
    tree = [[p, "directory", "d-" + f, None] for p, f in zip(dirs, fids)]
    tree += [[p, "file", "f-" + f, draw(st.sampled_from(["", "x\n", "y\n",
                                                          "é\r\n"]))]
             for p, f in zip(files, fids[len(dirs):])]
    tpaths = [t[0] for t in tree]
    tids = [t[2] for t in tree]

    tfiles = set(files)

    def under_file(p):
        parts = p.split("/")
        return any("/".join(parts[:i]) in tfiles for i in range(1, len(parts)))

    def a_path():
        p = a_path0()
        if under_file(p) and not below_file:
            # open finding C20/resolve-crashes-...: excluded by construction
            p = "zz" + p
        return p

    def a_path0():
        k = draw(st.integers(0, 9))
        if below_file:
            return draw(st.sampled_from(files)) + "/" + draw(_comp())
        if k <= 3:
            return draw(st.sampled_from(tpaths))
        if k == 4:
            return draw(st.sampled_from(tpaths)) + draw(st.sampled_from(
                ["x", " ", ".THIS", "é"]))
        if k in (5, 6):
            return draw(st.sampled_from(tpaths)) + "/" + draw(_comp())
        if k == 7 and draw(st.integers(0, 3)) == 0:
            return ""
        return "/".join(draw(st.lists(_comp(), min_size=1, max_size=2)))

    def a_fid(optional=True):
        k = draw(st.integers(0, 5))
        if k == 0 and optional:
            return None
        if k <= 3:
            return draw(st.sampled_from(tids))
        return draw(_fid_text())

    conflicts = []
    for _ in range(draw(st.sampled_from([1, 2] if below_file else
                                        [0, 1, 2, 3, 4, 5, 6, 8, 12]))):
        typ = draw(st.sampled_from(
            ["text conflict", "contents conflict"] if below_file else
            SIMPLE + PATHY + HANDLED + HANDLED_PATH))
        c = {"type": typ, "path": a_path(), "file_id": a_fid()}
        if typ in PATHY:
            c["conflict_path"] = (None if draw(st.integers(0, 3)) == 0
                                  else a_path())
        if typ in HANDLED or typ in HANDLED_PATH:
            c["action"] = draw(st.sampled_from(ACTIONS))
        if typ in HANDLED_PATH:
            c["conflict_path"] = a_path()
            c["conflict_file_id"] = a_fid()
        conflicts.append(c)

    # twins: equal under the classes' own == (which ignores conflict_path
    # for path/contents conflicts) but different conflicts
    for c in list(conflicts):
        if c["type"] in PATHY and draw(st.integers(0, 3)) == 0:
            twin = dict(c)
            twin["conflict_path"] = a_path()
            conflicts.insert(draw(st.integers(0, len(conflicts))), twin)

    cpaths = [c["path"] for c in conflicts] + [
        c["conflict_path"] for c in conflicts if c.get("conflict_path")]

    def sel_path():
        k = draw(st.integers(0, 7))
        if k <= 2 or not cpaths:
            return draw(st.sampled_from(tpaths))
        if k <= 5:
            p = draw(st.sampled_from(cpaths))
            if k == 5 and "/" in p:
                p = p.rsplit("/", 1)[0]
            return p.rstrip("/") if p != "" else p
        if k == 6:
            return "" if draw(st.integers(0, 2)) == 0 else "nowhere"
        return draw(st.sampled_from(cpaths))[:-1].rstrip("/") or "a"

    selection = {"paths": draw(st.lists(st.builds(sel_path), max_size=3,
                                        unique=True)),
                 "recurse": draw(st.booleans()),
                 "ignore_misses": draw(st.booleans())}
    mm = []
    for p in draw(st.lists(st.sampled_from(tpaths + ["nowhere", "a/zz"]),
                           max_size=5, unique=True)):
        mm.append([p, draw(st.sampled_from(["right", "right", "wrong"]))])
    edits = []
    fpaths = [t[0] for t in tree if t[1] == "file"]
    for p in draw(st.lists(st.sampled_from(fpaths), max_size=2, unique=True)):
        edits.append([p, draw(st.sampled_from(["modify", "unversion",
                                               "rename", "touch"]))])
    if helper_dir:
        if "a.THIS" not in [f.rsplit("/", 1)[0] for f in files]:
            tree.append(["a.THIS/inside", "file", "f-inside", "x\n"])
        conflicts.insert(0, {"type": "text conflict", "path": "a",
                             "file_id": None})
    if below_file or helper_dir:
        selection = {"paths": [conflicts[0]["path"]], "recurse": False,
                     "ignore_misses": True}
        edits = []
    return {"tree": tree, "conflicts": conflicts, "selection": selection,
            "merge_modified": mm, "edits": edits,
            "resolve_all": draw(st.integers(0, 5)) == 0,
            "variant": [draw(st.integers(0, 11)),
                        draw(st.sampled_from(["conflict_path", "conflict_path",
                                              "file_id", "action", "path",
                                              "conflict_file_id"])),
                        draw(st.integers(0, 5))]}


# ---------------------------------------------------------------- helpers

def _enc(f):
    return None if f is None else f.encode("utf-8")


def _make(c):
    from breezy.bzr import conflicts as bc
    typ = c["type"]
    if typ in SIMPLE:
        return bc.Conflict.factory(typ, path=c["path"],
                                   file_id=_enc(c["file_id"]))
    if typ in PATHY:
        return bc.Conflict.factory(typ, path=c["path"],
                                   conflict_path=c["conflict_path"],
                                   file_id=_enc(c["file_id"]))
    if typ in HANDLED:
        return bc.Conflict.factory(typ, action=c["action"], path=c["path"],
                                   file_id=_enc(c["file_id"]))
    return bc.Conflict.factory(typ, action=c["action"], path=c["path"],
                               conflict_path=c["conflict_path"],
                               file_id=_enc(c["file_id"]),
                               conflict_file_id=_enc(c["conflict_file_id"]))


def _want(c):
    return [c["type"], c["path"], c.get("file_id"), c.get("action"),
            c.get("conflict_path"), c.get("conflict_file_id")]


def _dec(b):
    if b is None:
        return None
    check(isinstance(b, bytes), "C20/file-id-read-back-is-not-bytes",
          repr(b))
    return b.decode("utf-8")


def _attrs(o):
    return [o.typestring, o.path, _dec(o.file_id), getattr(o, "action", None),
            getattr(o, "conflict_path", None),
            _dec(getattr(o, "conflict_file_id", None))]


def _compare(got, want_cases, sig, detail):
    got = [_attrs(o) for o in got]
    want = [_want(c) for c in want_cases]
    if got == want:
        return
    d = dict(detail, got=got, want=want)
    if len(got) != len(want):
        check(False, sig + "-count-differs", d)
    for g, w in zip(got, want):
        for name, a, b in zip(("type", "path", "file_id", "action",
                               "conflict_path", "conflict_file_id"), g, w):
            if a != b:
                check(False, "%s-%s-differs" % (sig, name), d)
    check(False, sig + "-order-differs", d)


def _inside(d, f):
    return d == f or d == "" or f.startswith(d + "/")


def model_select(conflicts, paths, ids_of_paths, recurse):
    """-> (remaining, selected, why) ; why = set of reasons that selected."""
    pset = set(paths)
    ids = set(ids_of_paths)
    rem, sel, why = [], [], set()
    for c in conflicts:
        hit = False
        for cp in (c["path"], c.get("conflict_path")):
            if cp is None:
                continue
            if cp in pset:
                hit = True
                why.add("path")
            elif recurse and any(_inside(d, cp) for d in pset):
                hit = True
                why.add("recursion")
        if not hit:
            for fid in (c.get("file_id"), c.get("conflict_file_id")):
                if fid is not None and fid in ids:
                    hit = True
                    why.add("file-id")
        (sel if hit else rem).append(c)
    return rem, sel, why


def _variant(case):
    """The stored list with one attribute of one conflict changed."""
    v = case.get("variant")
    cs = case["conflicts"]
    if not v or not cs:
        return None
    k, attr, salt = v
    c = dict(cs[k % len(cs)])
    attrs = [a for a in ("conflict_path", "file_id", "action", "path",
                         "conflict_file_id") if c.get(a) is not None]
    if attr not in attrs:
        # the drawn attribute does not exist on this conflict type: take the
        # one the classes' == is most likely to overlook
        attr = attrs[salt % len(attrs)]
    old = c[attr]
    if attr == "action":
        new = ACTIONS[(ACTIONS.index(old) + 1 + salt) % len(ACTIONS)]
        if new == old:
            new = ACTIONS[(ACTIONS.index(old) + 1) % len(ACTIONS)]
    else:
        new = old + ["2", "-é", " x"][salt % 3].replace(
            " ", "_" if attr.endswith("id") else " ")
    c[attr] = new
    lst = list(cs)
    lst[k % len(cs)] = c
    return {"list": lst, "what": [k % len(cs), attr, old, new]}


def _safe(root, rel):
    full = os.path.normpath(os.path.join(root, rel))
    return full == root or full.startswith(root + os.sep)


def run(case, env):
    from breezy import conflicts as _mod_conflicts
    from breezy import workingtree
    from breezy.bzr import conflicts as bc
    from vf.lib import bz
    root = env.newdir("t")
    wt = bz.init_tree(root)
    for path, kind, fid, content in case["tree"]:
        ap = os.path.join(root, path)
        if kind == "directory":
            os.mkdir(ap)
        else:
            with open(ap, "wb") as f:
                f.write(content.encode("utf-8"))
    bz.age_files(root)
    for path, kind, fid, content in case["tree"]:
        wt.add([path], ids=[fid.encode("utf-8")])
    id_of = {t[0]: t[2] for t in case["tree"]}
    id_of[""] = _dec(wt.path2id(""))
    objs = [_make(c) for c in case["conflicts"]]
    cl = bc.ConflictList(objs)
    detail = {"case": case}

    # (1) stanza round trip in memory
    again = bc.ConflictList.from_stanzas(list(cl.to_stanzas()))
    _compare(again, case["conflicts"], "C20/stanza-round-trip", detail)
    for o, o2 in zip(objs, again):
        check(type(o) is type(o2), "C20/stanza-round-trip-class-differs",
              detail)

    # (2) persistence across re-open
    wt.set_conflicts(cl)
    del wt
    wt2 = workingtree.WorkingTree.open(root)
    got = wt2.conflicts()
    _compare(got, case["conflicts"], "C20/reopened-conflicts", detail)
    for o, o2 in zip(objs, got):
        check(type(o) is type(o2), "C20/reopened-conflict-class-differs",
              detail)

    # (2b) overwriting the stored list with one that differs in a single
    # attribute of a single conflict (same length, same order; for path and
    # contents conflicts the classes' own == does not see a conflict_path
    # change), and back again
    rewrite_label = None
    var = _variant(case)
    if var is not None:
        d2 = dict(detail, variant=var["what"])
        wt2.set_conflicts(bc.ConflictList([_make(c) for c in var["list"]]))
        del wt2
        wtv = workingtree.WorkingTree.open(root)
        _compare(wtv.conflicts(), var["list"],
                 "C20/rewritten-conflicts-stale-" + var["what"][1], d2)
        wtv.set_conflicts(bc.ConflictList([_make(c)
                                           for c in case["conflicts"]]))
        del wtv
        wtw = workingtree.WorkingTree.open(root)
        _compare(wtw.conflicts(), case["conflicts"],
                 "C20/rewritten-back-conflicts-stale-" + var["what"][1], d2)
        rewrite_label = "rewrite-differs-only-in-" + var["what"][1]

    # (3) merge-modified hashes
    mm_label = _merge_modified(case, root, id_of, detail)

    # (4) selection
    sel = case["selection"]
    wt3 = workingtree.WorkingTree.open(root)
    with wt3.lock_read():
        ids_now = {}
        for p in sel["paths"]:
            fid = wt3.path2id(p)
            if fid is not None:
                ids_now[p] = _dec(fid)
        rem_w, sel_w, why = model_select(case["conflicts"], sel["paths"],
                                         ids_now.values(), sel["recurse"])
        rem_g, sel_g = wt3.conflicts().select_conflicts(
            wt3, list(sel["paths"]), sel["ignore_misses"], sel["recurse"])
    d4 = dict(detail, ids_of_selected_paths=ids_now)
    if len(sel_g) != len(sel_w):
        got_sel = [_attrs(o) for o in sel_g]
        extra = [a for a in got_sel if a not in [_want(c) for c in sel_w]]
        check(False, "C20/select-%s" % (
            "selects-unrelated-conflict" if extra else
            "misses-selected-conflict"),
            dict(d4, selected=got_sel, want=[_want(c) for c in sel_w]))
    _compare(sel_g, sel_w, "C20/select-selected", d4)
    _compare(rem_g, rem_w, "C20/select-remaining", d4)

    # (5) resolving persists exactly the rest
    for c in case["conflicts"]:
        for suffix in (".THIS", ".BASE", ".OTHER"):
            check(_safe(root, c["path"] + suffix),
                  "C20/harness-path-escapes-tree", c["path"])
    wt4 = workingtree.WorkingTree.open(root)
    try:
        before, after = _mod_conflicts.resolve(
            wt4, list(sel["paths"]), ignore_misses=True,
            recursive=sel["recurse"], action="done")
    except OSError as e:
        # Conflict.cleanup only tolerates FileNotFoundError
        import errno
        tfiles = {t[0] for t in case["tree"] if t[1] == "file"}
        tdirs = {t[0] for t in case["tree"] if t[1] == "directory"}
        for c in sel_w:
            if c["type"] not in ("text conflict", "contents conflict"):
                continue
            parts = c["path"].split("/")
            below = any("/".join(parts[:i]) in tfiles
                        for i in range(1, len(parts)))
            helper = any(c["path"] + sfx in tdirs
                         for sfx in (".THIS", ".BASE", ".OTHER"))
            enotdir = isinstance(e, NotADirectoryError) or \
                e.errno == errno.ENOTDIR
            enotempty = e.errno == errno.ENOTEMPTY or \
                "not empty" in str(e).lower()
            if (enotdir and below) or (enotempty and helper):
                check(False, "C20/resolve-aborts-when-helper-file-cleanup-"
                      "fails", dict(d4, conflict=_want(c), error=str(e)))
        raise
    wt5 = workingtree.WorkingTree.open(root)
    _compare(wt5.conflicts(), rem_w, "C20/resolve-persisted", d4)
    check((before, after) == (len(case["conflicts"]), len(rem_w)),
          "C20/resolve-reports-wrong-counts",
          dict(d4, counts=[before, after]))
    if case["resolve_all"]:
        _mod_conflicts.resolve(wt5, None, action="done")
        left = workingtree.WorkingTree.open(root).conflicts()
        check(len(left) == 0, "C20/resolve-all-leaves-conflicts",
              dict(detail, left=[_attrs(o) for o in left]))

    # non-triviality
    types = {c["type"] for c in case["conflicts"]}
    odd = any(any(ord(ch) > 127 or ch in "\"' #\t" or ord(ch) < 32
                  for ch in (c["path"] or "")) for c in case["conflicts"])
    if sel_w and rem_w:
        return ok("proper-subset-selected-by-" + "+".join(sorted(why)))
    if len(types) >= 2 and odd:
        return ok("several-types-with-odd-path")
    if mm_label:
        return ok(mm_label)
    if rewrite_label:
        return ok(rewrite_label)
    return trivial()


def _merge_modified(case, root, id_of, detail):
    from breezy import workingtree
    from vf.lib import bz
    contents = {t[0]: t[3].encode("utf-8") for t in case["tree"]
                if t[1] == "file"}
    wt = workingtree.WorkingTree.open(root)
    d = {}
    for p, how in case["merge_modified"]:
        if p in contents and how == "right":
            d[p] = bz.sha1(contents[p]).encode("ascii")
        else:
            d[p] = bz.sha1(b"other:" + p.encode("utf-8")).encode("ascii")
    wt.set_merge_modified(d)
    # model: entries are kept by file id
    entries = [(id_of[p], h) for p, h in d.items() if p in id_of]
    path_of = {fid: p for p, fid in id_of.items()}
    current = dict(contents)
    for p, how in case["edits"]:
        if how == "modify":
            current[p] = current[p] + b"changed\n"
            with open(os.path.join(root, p), "wb") as f:
                f.write(current[p])
        elif how == "touch":
            with open(os.path.join(root, p), "wb") as f:
                f.write(current[p])
        elif how == "unversion":
            wt.remove([p], keep_files=True)
            del path_of[id_of[p]]
        else:
            new = p + ".renamed"
            wt.rename_one(p, new)
            path_of[id_of[p]] = new
            current[new] = current.pop(p)
    del wt
    want = {}
    for fid, h in entries:
        p = path_of.get(fid)
        if p is None:
            continue
        if p in current and bz.sha1(current[p]).encode("ascii") == h:
            want[p] = h
    wt = workingtree.WorkingTree.open(root)
    got = wt.merge_modified()
    if got != want:
        dd = dict(detail, got={k: v.decode() for k, v in got.items()},
                  want={k: v.decode() for k, v in want.items()})
        if set(got) - set(want):
            check(False, "C20/merge-modified-keeps-stale-or-foreign-entry", dd)
        if set(want) - set(got):
            check(False, "C20/merge-modified-loses-entry", dd)
        check(False, "C20/merge-modified-hash-differs", dd)
    # undo the rename/unversion so that the selection part sees the case's
    # tree again is not needed: selection re-reads ids from the tree itself
    if want and len(want) < len(d):
        return "merge-modified-filtered"
    if want:
        return "merge-modified-kept"
    return None


def kinds(tier):
    return [
        Kind("conflicts-and-merge-hashes", run, strategy=gen_case(),
             examples={"quick": 2000, "thorough": 80000}),
        Kind("conflict-path-below-a-file", run,
             strategy=gen_case(below_file=True),
             examples={"quick": 24, "thorough": 300}),
        Kind("helper-name-is-a-directory", run,
             strategy=gen_case(helper_dir=True),
             examples={"quick": 16, "thorough": 200}),
    ]
