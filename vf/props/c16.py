"""C16 - uncommit undoes commit."""

import os

from hypothesis import strategies as st

from vf.api import Kind, check, ok, trivial
from vf.lib import bz, graphmodel as gm, history

PROPERTY = "C16"
LEVEL = "exploration"
TECHNIQUE = ("Hypothesis-generated DAG histories with tags and pending merges "
             "on real 2a / pack-0.92 trees; commit+uncommit round trip compared "
             "on observed state, multi-revision uncommit compared with an "
             "independent graph model (left-hand ancestor, re-recorded merges, "
             "reachability sandwich, tag rule)")
RULE = ("history_spec DAG (merges, tags) built with BranchBuilder, a working "
        "tree on a generated tip with generated pending merges and a local "
        "modification; (a) commit then uncommit (also local commit + local "
        "uncommit in a bound branch, a tag set on the new revision, "
        "keep_tags); (b) uncommit of depth d with keep_tags / dry_run / bound "
        "master / local / no tree, in one call or two calls on the same "
        "branch and tree objects; several tags on one revision and a tag on an "
        "absent revision; the documented refusals (local on an unbound branch, "
        "master elsewhere than the local tip) change nothing. Non-trivial: a "
        "removed "
        "revision is a merge, or depth >= 2 crossing a merge, or a tag must be "
        "dropped, or pending merges existed before the commit. Distinct by case "
        "hash.")
ASSUMPTIONS = [
    "order among re-recorded pending merges is asserted only for the "
    "single-revision round trip (the property does not fix it otherwise)",
    "working-tree set_parent_ids legitimately drops pending merges that are "
    "already ancestors of the first parent (reachability sandwich oracle)",
]
LEVEL_TEXT = ("Sampled exploration: the round trip is an exact before/after "
              "comparison of tip, revno, tree parents, reported changes and "
              "file bytes; the depth case is decided by an independent graph "
              "model over the generated DAG.")
LEVEL_NOTE = ("Histories bounded to 12 revisions; bzr formats only; tag removal "
              "(Rust src/uncommit.rs) is exercised through breezy.uncommit as "
              "built from the working tree.")
REGISTERED = True
NONTRIVIAL_FLOOR = {"quick": 40, "thorough": 400}


def observe(path):
    from breezy import workingtree
    wt = workingtree.WorkingTree.open(path)
    with wt.lock_read():
        revno, tip = wt.branch.last_revision_info()
        return {
            "tip": [revno, tip.decode()],
            "parents": [p.decode() for p in wt.get_parent_ids()],
            "changes": bz.iter_changes_canon(wt, wt.basis_tree()),
            "fs": bz.snapshot_fs(path),
            "tags": {k: v.decode() for k, v in
                     wt.branch.tags.get_tag_dict().items()},
        }


def run(case, env):
    from breezy import branch as _branch, errors, uncommit as _unc
    from breezy import workingtree
    spec = case["spec"]
    g = history.graph_of(spec, ghosts=False)
    d = env.newdir()
    path = d + "/t"
    br = bz.init_branch(path, case["format"])
    models = history.build_bb(spec, br)
    tip = case["tip"]
    history.set_tip(br, spec, tip)
    for t, r in case["tags"].items():
        br.tags.set_tag(t, bz.enc(r))
    if case.get("ghost_tag"):
        # a tag on a revision that is not in the repository points at no
        # removed revision: it stays whatever is uncommitted
        br.tags.set_tag("tghost", b"not-present-rev")
    master_path = None
    if case["bound"]:
        master_path = d + "/m"
        m = br.controldir.sprout(master_path).open_branch()
        br.bind(m)
    wt = br.controldir.create_workingtree()
    lh = gm.lefthand(g, tip)
    anc = gm.ancestry(g, tip)
    pend = [p for p in case["pending"] if p not in anc]
    if pend:
        wt.branch.repository.fetch(wt.branch.repository)  # no-op, same repo
        wt.set_parent_ids([bz.enc(tip)] + [bz.enc(p) for p in pend])
    # a local modification and an unknown file
    files = sorted(p for p, v in bz.model_snapshot(models[tip]).items()
                   if v[0] == "file")
    if files:
        with open(os.path.join(path, files[0]), "ab") as f:
            f.write(b"local change\n")
    with open(os.path.join(path, "unknown.txt"), "wb") as f:
        f.write(b"unknown\n")
    bz.age_files(path)
    before = observe(path)
    labels = []
    # ---- (a) commit + uncommit round trip
    wt = workingtree.WorkingTree.open(path)
    rt_local = bool(case.get("rt_local")) and bool(master_path)
    wt.commit("x", rev_id=b"new-rev", timestamp=bz.T0 + 99999, timezone=0,
              committer=bz.COMMITTER, allow_pointless=True, local=rt_local)
    mid = observe(path)
    check(mid["tip"] == [before["tip"][0] + 1, "new-rev"],
          "C16/commit-did-not-advance", [before["tip"], mid["tip"]])
    if master_path and rt_local:
        mb = _branch.Branch.open(master_path)
        check(mb.last_revision().decode() == tip,
              "C16/local-commit-moved-master",
              [mb.last_revision().decode(), tip])
    rt_keep = bool(case.get("rt_keep"))
    want_tags = dict(before["tags"])
    if case.get("rt_tag"):
        # a tag that points only at the revision about to be removed
        _branch.Branch.open(path).tags.set_tag("tnew", b"new-rev")
        if rt_keep:
            want_tags["tnew"] = "new-rev"
    wt = workingtree.WorkingTree.open(path)
    _unc.uncommit(wt.branch, tree=wt, local=rt_local, keep_tags=rt_keep)
    after = observe(path)
    for k in ("tip", "parents", "changes", "fs"):
        check(after[k] == before[k], "C16/round-trip-%s-differs" % k,
              {"before": before[k], "after": after[k]})
    check(after["tags"] == want_tags,
          "C16/round-trip-tags-differs" if not case.get("rt_tag") else
          ("C16/round-trip-kept-tag-lost" if rt_keep else
           "C16/round-trip-tag-on-removed-revision-not-as-specified"),
          {"before": before["tags"], "after": after["tags"],
           "want": want_tags, "keep": rt_keep})
    if master_path:
        mb = _branch.Branch.open(master_path)
        check(mb.last_revision().decode() == tip,
              "C16/round-trip-master-tip-differs",
              [mb.last_revision().decode(), tip, rt_local])
    if len(before["parents"]) > 1:
        labels.append("round-trip-with-pending-merges")
    if case.get("rt_tag") and not rt_keep:
        labels.append("round-trip-drops-tag")
    if rt_local:
        labels.append("round-trip-local")
    # ---- (b) uncommit to a depth
    wt = workingtree.WorkingTree.open(path)
    wt.set_parent_ids([bz.enc(tip)])
    depth = 1 + case["depth"] % len(lh)
    keep = case["keep_tags"]
    revno = len(lh) - depth + 1
    pre = observe(path)
    if case["dry_run"]:
        wt = workingtree.WorkingTree.open(path)
        _unc.uncommit(wt.branch, tree=wt, revno=revno, keep_tags=keep,
                      dry_run=True)
        post = observe(path)
        check(post == pre, "C16/dry-run-changed-something",
              {"pre": pre, "post": post})
        return ok("dry-run") if labels or depth > 1 else trivial()
    local = case["local"] and bool(master_path)
    no_tree = bool(case.get("no_tree"))

    def master_tip():
        return _branch.Branch.open(master_path).last_revision().decode()

    def master_tags():
        return {k: v.decode() for k, v in _branch.Branch.open(
            master_path).tags.get_tag_dict().items()}

    def check_master_tags(master_pre, newtip, gone):
        """Tags of the master of a bound branch (checked last: the search
        goes on behind the open finding for local=True)."""
        now = master_tags()
        if local:
            # nothing is removed from the master: every tag there still points
            # at a revision the master keeps
            check(now == master_pre,
                  "C16/local-uncommit-deletes-tags-in-the-master",
                  {"before": master_pre, "after": now, "tip": tip,
                   "depth": depth})
            return
        left = anc - (gm.ancestry(g, newtip) if newtip != "null:" else set())
        for k, v in sorted(master_pre.items()):
            if keep or v not in left:
                check(now.get(k) == v,
                      "C16/master-tag-on-kept-revision-dropped",
                      [k, v, master_pre, now])
            elif v in gone:
                check(k not in now, "C16/master-tag-on-removed-revision-kept",
                      [k, v, master_pre, now])
        check(set(now) <= set(master_pre), "C16/master-got-new-tags",
              [master_pre, now])

    if case.get("local_unbound") and not master_path:
        # local=True needs a bound branch: documented refusal, nothing changes
        wt = workingtree.WorkingTree.open(path)
        try:
            _unc.uncommit(wt.branch, tree=None if no_tree else wt, revno=revno,
                          keep_tags=keep, local=True)
            check(False, "C16/local-uncommit-on-unbound-branch-accepted",
                  [tip, depth])
        except errors.LocalRequiresBoundBranch:
            pass
        check(observe(path) == pre,
              "C16/refused-local-uncommit-changed-something",
              {"pre": pre, "post": observe(path)})
        labels.append("refused:LocalRequiresBoundBranch")
    mtip = tip
    if master_path and case.get("master_moved") and len(lh) >= 2:
        # the master is somewhere else than the local branch
        mtip = lh[-2]
        mb = _branch.Branch.open(master_path)
        mb.set_last_revision_info(len(lh) - 1, bz.enc(mtip))
        if not local:
            mtags = master_tags()
            wt = workingtree.WorkingTree.open(path)
            try:
                _unc.uncommit(wt.branch, tree=None if no_tree else wt,
                              revno=revno, keep_tags=keep)
                check(False, "C16/uncommit-accepted-although-master-differs",
                      [tip, mtip, depth])
            except errors.BoundBranchOutOfDate:
                pass
            post = observe(path)
            check(post == pre and master_tip() == mtip and
                  master_tags() == mtags,
                  "C16/refused-uncommit-changed-something",
                  {"pre": pre, "post": post, "master": master_tip()})
            return ok("+".join(sorted(set(
                labels + ["refused:BoundBranchOutOfDate"]))))
    master_pre = master_tags() if master_path else None
    # one call, or the same depth in two calls on the same long-lived objects
    revnos = [revno]
    if case.get("split") and depth >= 2:
        d1 = 1 + (case["split"] - 1) % (depth - 1)
        revnos = [len(lh) - d1 + 1, revno]
        labels.append("two-calls-on-one-object")
    if no_tree:
        # uncommit on the branch alone (as for a treeless branch): nothing is
        # re-recorded anywhere, so every revision that leaves the branch's
        # ancestry takes its tags with it
        b = _branch.Branch.open(path)
        for rn_ in revnos:
            _unc.uncommit(b, tree=None, revno=rn_, keep_tags=keep, local=local)
        b = _branch.Branch.open(path)
        newtip = lh[len(lh) - depth - 1] if depth < len(lh) else "null:"
        rn, rt = b.last_revision_info()
        check([rn, rt.decode()] == [len(lh) - depth, newtip],
              "C16/depth-tip-or-revno-wrong", [tip, depth, rn, rt])
        gone = anc - (gm.ancestry(g, newtip) if newtip != "null:" else set())
        exp_tags = {k: v for k, v in pre["tags"].items()
                    if keep or v not in gone}
        got_tags = {k: v.decode() for k, v in b.tags.get_tag_dict().items()}
        check(got_tags == exp_tags, "C16/tags-not-as-specified",
              [tip, depth, keep, pre["tags"], got_tags, exp_tags, "no tree"])
        check(bz.snapshot_fs(path) == pre["fs"], "C16/uncommit-modified-files",
              None)
        if master_path:
            mt = master_tip()
            if local:
                check(mt == mtip, "C16/local-uncommit-moved-master",
                      [mt, mtip, "no tree"])
            else:
                check(mt == newtip, "C16/master-not-in-step-after-uncommit",
                      [mt, newtip, "no tree"])
        if master_path:
            check_master_tags(master_pre, newtip, gone)
        merged = [p for r in lh[len(lh) - depth:] for p in g[r][1:]]
        if merged or len(exp_tags) < len(pre["tags"]):
            labels.append("no-tree" + ("+tag-dropped" if len(exp_tags) <
                                       len(pre["tags"]) else ""))
        return ok("+".join(sorted(set(labels)))) if labels else trivial()
    wt = workingtree.WorkingTree.open(path)
    b = wt.branch
    for rn_ in revnos:
        _unc.uncommit(b, tree=wt, revno=rn_, keep_tags=keep, local=local)
    post = observe(path)
    newtip = lh[len(lh) - depth - 1] if depth < len(lh) else "null:"
    removed = lh[len(lh) - depth:]
    detail = {"tip": tip, "depth": depth, "removed": removed,
              "got": post["tip"], "parents": post["parents"],
              "tags_before": pre["tags"], "tags_after": post["tags"],
              "keep": keep, "revnos": revnos}
    check(post["tip"] == [len(lh) - depth, newtip],
          "C16/depth-tip-or-revno-wrong", detail)
    ps = post["parents"]
    if newtip != "null:":
        check(ps and ps[0] == newtip, "C16/first-parent-not-new-tip", detail)
        rest = ps[1:]
    else:
        rest = ps
    exp_merged = [p for r in removed for p in g[r][1:]]
    check(set(rest) <= set(exp_merged),
          "C16/pending-merge-not-a-removed-right-hand-parent",
          [detail, exp_merged])
    reach = gm.ancestry_many(g, ps)
    want = anc - set(removed)
    check(want <= reach, "C16/merged-revision-lost-by-uncommit",
          [detail, sorted(want - reach)])
    check(reach <= anc, "C16/parents-reach-outside-old-ancestry",
          [detail, sorted(reach - anc)])
    if newtip != "null:":
        a0 = gm.ancestry(g, ps[0])
        check(not any(p in a0 for p in rest),
              "C16/pending-merge-already-in-first-parent", detail)
    check(post["fs"] == pre["fs"], "C16/uncommit-modified-files",
          {"pre": pre["fs"], "post": post["fs"]})
    gone = anc - reach
    exp_tags = {k: v for k, v in pre["tags"].items() if keep or v not in gone}
    check(post["tags"] == exp_tags, "C16/tags-not-as-specified",
          [detail, exp_tags, sorted(gone)])
    if master_path:
        mt = master_tip()
        if local:
            check(mt == mtip, "C16/local-uncommit-moved-master", [mt, mtip])
        else:
            check(mt == newtip, "C16/master-not-in-step-after-uncommit",
                  [mt, newtip])
    if master_path:
        check_master_tags(master_pre, newtip, gone)
    if exp_merged:
        labels.append("merge-removed" if depth == 1 else
                      "depth-crossing-merge")
    if len(exp_tags) < len(pre["tags"]):
        labels.append("tag-dropped")
    if not labels:
        return trivial()
    return ok("+".join(sorted(set(labels))))


@st.composite
def cases(draw, n_max=10):
    spec = draw(history.history_spec(
        n_min=3, n_max=n_max, merges=True, ghosts=False, bb_safe=True,
        ops_max=1, base_max=2))
    ids = [r["id"] for r in spec["revs"]]
    tip = draw(st.sampled_from(ids[1:]))
    names = draw(st.lists(st.sampled_from(["t0", "t1", "t2", "t3"]),
                          unique=True, max_size=4))
    tags = {t: draw(st.sampled_from(ids)) for t in names}
    if names and draw(st.sampled_from([False, False, False, True])):
        # several tags on one revision (the reverse tag dictionary has lists)
        one = draw(st.sampled_from(ids))
        tags = dict.fromkeys(names, one)
    bound = draw(st.sampled_from([False] * 3 + [True] * 2))
    g = history.graph_of(spec, ghosts=False)
    anc = gm.ancestry(g, tip)
    # the revisions whose tags depend on what is re-recorded: merged into the
    # tip, but not on its left-hand history
    side = sorted(anc - set(gm.lefthand(g, tip)))
    if side and names and draw(st.booleans()):
        for t in names[:draw(st.sampled_from([1, 2]))]:
            tags[t] = draw(st.sampled_from(side))
    # pending merges: heads among the revisions not yet merged into the tip
    outside = [r for r in ids if r not in anc]
    pending = []
    if outside and draw(st.sampled_from([True, True, False])):
        pending = draw(st.lists(st.sampled_from(outside), unique=True,
                                min_size=1, max_size=3))
        pending = [p for p in pending if not any(
            o != p and p in gm.ancestry(g, o) for o in pending)]
    return {"spec": spec, "format": draw(st.sampled_from(["2a", "2a",
                                                          "pack-0.92"])),
            "tip": tip, "tags": tags,
            "pending": pending,
            "depth": draw(st.sampled_from(list(range(12)))),
            "keep_tags": draw(st.sampled_from([False, False, True])),
            "dry_run": draw(st.sampled_from([False] * 11 + [True])),
            "bound": bound, "local": bound and draw(st.booleans()),
            "no_tree": draw(st.sampled_from([False, False, False, True])),
            # round trip: local commit + local uncommit in a bound branch; a
            # tag set on the new revision; keep_tags for the round trip
            "rt_local": bound and draw(st.sampled_from([False, False, True])),
            "rt_tag": draw(st.booleans()),
            "rt_keep": draw(st.sampled_from([False, False, True])),
            # the depth in two calls on one branch / tree object (0 = one call)
            "split": draw(st.sampled_from([0, 0, 1, 2, 3])),
            "master_moved": bound and draw(st.sampled_from(
                [False, False, True])),
            "local_unbound": (not bound) and draw(st.sampled_from(
                [False, False, False, True])),
            "ghost_tag": draw(st.sampled_from([False, False, True]))}


def kinds(tier):
    return [
        Kind("uncommit", run, strategy=cases(n_max=9 if tier == "quick" else 12),
             examples={"quick": 560, "thorough": 10000}),
    ]
