"""C24 - tag transfer never loses or silently rewrites tags; tag dictionaries
are stored and read back unchanged."""

import os
import shutil
import tempfile

from hypothesis import strategies as st

from vf.api import Kind, check, ok, rejected, trivial, violation, b2s, s2b

PROPERTY = "C24"
LEVEL = "exploration"
TECHNIQUE = ("Hypothesis over pairs of tag dictionaries; own two-way "
             "reconciliation as reference; end-to-end merge_to between real "
             "bzr / git / in-memory tag stores, read back after reopening")
RULE = ("generated: (a) two tag dictionaries over a shared name pool where "
        "every name is put in one of the classes only-source / only-destination "
        "/ equal / differing, x overwrite x selector (name predicate or none) "
        "through _reconcile_tags; (b) tag dictionaries with arbitrary unicode "
        "names (spaces, '/', non-BMP) and whitespace-free revision ids through "
        "BasicTags serialisation and through a real 2a branch reopened; (c) the "
        "same pairs end to end: source in {2a branch, git branch, MemoryTags}, "
        "target in {2a branch, 2a branch bound to a master with its own tags, "
        "git branch, MemoryTags}, ignore_master on/off; git stores use valid "
        "ref names and values among three real commits, some absent from the "
        "target repository. Non-trivial: the pair has >= 1 tag in each of the "
        "four classes (selected); distinct by case hash.")
ASSUMPTIONS = [
    "git cannot store a tag whose revision is absent from the repository "
    "(documented: GhostTagsNotSupported / supports_tags_referencing_ghosts is "
    "False): for such tags the only requirement is that the destination is "
    "left as it was",
    "MemoryTags is only a source towards branch-backed stores (it has no "
    "branch) and knows nothing about masters",
    "revision ids contain no whitespace",
]
NONTRIVIAL_FLOOR = {"quick": 300, "thorough": 5000}


# -------------------------------------------------------------------- spec

def spec_reconcile(src, dst, overwrite, sel):
    """The property's four rules, written down directly."""
    result = dict(dst)
    updates = {}
    conflicts = []
    for name in sorted(src):
        val = src[name]
        if sel is not None and not sel(name):
            continue
        if name not in dst:
            result[name] = val
            updates[name] = val
        elif dst[name] == val:
            pass
        elif overwrite:
            result[name] = val
            updates[name] = val
        else:
            conflicts.append((name, val, dst[name]))
    return result, updates, conflicts


def classes(src, dst, sel):
    c = set()
    for n in src:
        if sel is not None and not sel(n):
            continue
        if n not in dst:
            c.add("only-src")
        elif dst[n] == src[n]:
            c.add("equal")
        else:
            c.add("differ")
    if any(n not in src for n in dst):
        c.add("only-dst")
    return c


def _selector(spec):
    """None, or {"ch": c, "neg": bool}: names (not) containing c."""
    if spec is None:
        return None
    ch, neg = spec["ch"], spec["neg"]
    if neg:
        return lambda name: ch not in name
    return lambda name: ch in name


def _label(case, src, dst, sel, extra=""):
    cl = classes(src, dst, sel)
    if len(cl) < 4:
        return None
    lab = "all-four-classes"
    if not extra:
        if case["overwrite"]:
            lab += "+overwrite"
        if sel is not None:
            lab += "+selector"
    return lab + extra


# -------------------------------------------------------------------- pure

def _vals(d):
    return {k: s2b(v) for k, v in d.items()}


def run_pure(case, env):
    from breezy import tag as _tag
    src = _vals(case["src"])
    dst = _vals(case["dst"])
    sel = _selector(case["sel"])
    s0, d0 = dict(src), dict(dst)
    res, upd, conf = _tag._reconcile_tags(src, dst, case["overwrite"], sel)
    eres, eupd, econf = spec_reconcile(s0, d0, case["overwrite"], sel)
    check(src == s0 and dst == d0, "C24/reconcile-mutates-its-inputs", [case])
    _compare(case, d0, res, upd, conf, eres, eupd, econf, "reconcile")
    # MemoryTags -> MemoryTags uses the same rules
    a = _tag.MemoryTags(dict(s0))
    b = _tag.MemoryTags(dict(d0))
    upd2, conf2 = a.merge_to(b, overwrite=case["overwrite"], selector=sel)
    _compare(case, d0, b.get_tag_dict(), upd2, conf2, eres, eupd, econf,
             "memory")
    check(a.get_tag_dict() == s0, "C24/memory-source-changed", [case])
    lab = _label(case, s0, d0, sel)
    return ok(lab) if lab else trivial()


def _compare(case, dst0, res, upd, conf, eres, eupd, econf, what):
    for n in eres:
        if n not in res:
            sig = ("only-destination-tag-lost" if n in dst0
                   else "only-source-tag-not-added")
            check(False, "C24/%s-%s" % (what, sig), [case, n])
    for n in res:
        check(n in eres, "C24/%s-invented-tag" % what, [case, n])
        if res[n] != eres[n]:
            if n in dst0 and eres[n] == dst0[n]:
                sig = "destination-value-rewritten"
            else:
                sig = "source-value-not-taken"
            check(False, "C24/%s-%s" % (what, sig),
                  [case, n, repr(res[n]), repr(eres[n])])
    check(dict(upd) == eupd, "C24/%s-updates-differ" % what,
          [case, repr(upd), repr(eupd)])
    check(set(conf) == set(econf), "C24/%s-conflicts-differ" % what,
          [case, repr(sorted(conf)), repr(sorted(econf))])
    check(len(list(conf)) == len(set(conf)),
          "C24/%s-duplicate-conflicts" % what, [case, repr(conf)])


# ------------------------------------------------------------- persistence

def run_persist(case, env):
    from breezy import branch as _mod_branch
    from breezy import controldir
    from breezy.bzr.tag import BasicTags
    d = _vals(case["tags"])
    bt = BasicTags.__new__(BasicTags)
    blob = bt._serialize_tag_dict(dict(d))
    check(isinstance(blob, bytes), "C24/serialised-tags-not-bytes", [case])
    back = bt._deserialize_tag_dict(blob)
    check(back == d, "C24/serialise-deserialise-not-identity",
          [case, repr(back)])
    check(bt._deserialize_tag_dict(b"") == {},
          "C24/empty-tag-file-not-empty-dict", [])
    if case["real"]:
        path = env.newdir("c24")
        fmt = controldir.format_registry.make_controldir(case["format"])
        b = controldir.ControlDir.create_branch_convenience(
            path, format=fmt, force_new_tree=False)
        if case.get("via") == "api":
            # one tag at a time through the public API, each call on a
            # freshly opened branch or on one long-lived object
            from breezy import errors
            long_lived = case.get("long_lived")
            cur = b
            for n in sorted(d):
                if not long_lived:
                    cur = _mod_branch.Branch.open(path)
                cur.tags.set_tag(n, d[n])
            gone = [n for n in case.get("delete", []) if n in d]
            for n in gone:
                if not long_lived:
                    cur = _mod_branch.Branch.open(path)
                cur.tags.delete_tag(n)
                try:
                    cur.tags.delete_tag(n)
                except errors.NoSuchTag:
                    pass
                else:
                    check(False, "C24/deleting-an-absent-tag-accepted",
                          [case, n])
            d = {n: v for n, v in d.items() if n not in gone}
            check(dict(cur.tags.get_tag_dict()) == d,
                  "C24/tag-dict-differs-on-the-writing-object",
                  [case, repr(cur.tags.get_tag_dict())])
        else:
            with b.lock_write():
                b.tags._set_tag_dict(dict(d))
        b2 = _mod_branch.Branch.open(path)
        got = b2.tags.get_tag_dict()
        check(got == d, "C24/tag-dict-not-read-back-unchanged",
              [case, repr(got)])
        rev = b2.tags.get_reverse_tag_dict()
        want_rev = {}
        for n, v in d.items():
            want_rev.setdefault(v, set()).add(n)
        check({k: set(v) for k, v in rev.items()} == want_rev,
              "C24/reverse-tag-dict-differs", [case, repr(dict(rev))])
        for n in sorted(d)[:3]:
            check(b2.tags.has_tag(n), "C24/has_tag-misses-a-tag", [case, n])
        # single-tag API agrees with the dictionary
        for n in sorted(d)[:3]:
            check(b2.tags.lookup_tag(n) == d[n], "C24/lookup_tag-differs",
                  [case, n])
    odd = any(not (c.isascii() and c.isalnum()) for n in d for c in n)
    if not d or not odd:
        return trivial()
    nb = any(ord(c) > 0xffff for n in d for c in n)
    return ok("odd-names" + ("+non-bmp" if nb else "") +
              ("+real-branch" if case["real"] else ""))


# ---------------------------------------------------------------- end to end

GIT_VALS = ["c1", "c2", "c3"]
BZR_VALS = {"x1": b"joe@example.com-20110101-abcdef",
            "x2": b"rev-\xc3\xa9-2",
            "x3": b"null-ish:x"}


def setup_git(env):
    """Per shard: a git tree with three commits and a clone holding two."""
    from breezy import controldir
    root = tempfile.mkdtemp(prefix="c24tpl", dir=env.root)
    fmt = controldir.format_registry.make_controldir("git")
    full = os.path.join(root, "full")
    wt = controldir.ControlDir.create_standalone_workingtree(full, format=fmt)
    revs = []
    for i in range(3):
        with open(os.path.join(full, "a"), "w") as f:
            f.write("a%d" % i)
        if i == 0:
            wt.add(["a"])
        revs.append(wt.commit("c%d" % i, timestamp=1500000000 + i, timezone=0,
                              committer="T <t@example.com>"))
        if i == 1:
            wt.controldir.sprout(os.path.join(root, "part"))
    env.shared["c24"] = {"root": root, "revs": revs}


def teardown_git(env):
    st_ = env.shared.pop("c24", None)
    if st_:
        shutil.rmtree(st_["root"], ignore_errors=True)


def _value(env, sym):
    if sym in GIT_VALS:
        return env.shared["c24"]["revs"][GIT_VALS.index(sym)]
    return BZR_VALS[sym]


def _annotated_tag(name, revid):
    """A dulwich Tag object (annotated tag) for `name` on the commit behind
    the git revision id; deterministic, so source and target agree on it."""
    from dulwich.objects import Commit, Tag
    sha = revid.split(b":", 1)[1]
    t = Tag()
    t.name = name.encode("utf-8")
    t.object = (Commit, sha)
    t.tagger = b"T <t@example.com>"
    t.tag_time = 1500000100
    t.tag_timezone = 0
    t.message = b"annotated " + name.encode("utf-8") + b"\n"
    return t


class Store:
    def __init__(self, env, kind, path, tags, template=None, annotated=(),
                 known_objects=()):
        from breezy import branch as _mod_branch
        from breezy import controldir
        self.kind = kind
        self.path = path
        self.initial = dict(tags)
        self.present = None
        if kind == "mem":
            from breezy.tag import MemoryTags
            self.mem = MemoryTags(dict(tags))
            return
        if kind == "git":
            shutil.copytree(os.path.join(env.shared["c24"]["root"], template),
                            path)
            n = 3 if template == "full" else 2
            self.present = set(env.shared["c24"]["revs"][:n])
        else:
            fmt = controldir.format_registry.make_controldir("2a")
            controldir.ControlDir.create_branch_convenience(
                path, format=fmt, force_new_tree=False)
        b = _mod_branch.Branch.open(path)
        with b.lock_write():
            b.tags._set_tag_dict(dict(tags))
        if kind == "git":
            # annotated tags: the ref points at a tag object that peels to the
            # commit; objects a fetch would have brought are put in as well
            git = b.repository._git
            for obj in known_objects:
                git.object_store.add_object(obj)
            for n in annotated:
                if n in tags:
                    t = _annotated_tag(n, tags[n])
                    git.object_store.add_object(t)
                    git.refs[b"refs/tags/" + n.encode("utf-8")] = t.id
        got = self.read()
        check(got == tags, "C24/%s-tag-dict-not-read-back-unchanged" % kind,
              [repr(tags), repr(got)])

    def open(self):
        from breezy import branch as _mod_branch
        return _mod_branch.Branch.open(self.path)

    def tags(self):
        if self.kind == "mem":
            return self.mem
        return self.open().tags

    def read(self):
        if self.kind == "mem":
            return dict(self.mem.get_tag_dict())
        return dict(self.open().tags.get_tag_dict())

    def can_hold(self, value):
        return self.present is None or value in self.present


def _check_store(case, what, store, eres, eupd, pending=None):
    """Final content of a store against the spec result."""
    got = store.read()
    dst0 = store.initial
    refused = set()
    for n, v in eupd.items():
        if not store.can_hold(v):
            refused.add(n)
    for n in sorted(set(eres) | set(got)):
        if n in refused:
            # documented refusal: the destination keeps what it had
            want = dst0.get(n)
            if (got.get(n) is None and want is not None and
                    store.kind == "git" and pending is not None and
                    eupd[n].startswith(b"git-v1:")):
                # open finding: deferred so the other tags are still checked
                pending.append(violation(
                    "C24/git-target-tag-overwritten-with-dangling-ref",
                    [case, n, repr(want), repr(eupd[n])]))
                continue
            check(got.get(n) == want,
                  "C24/%s-refused-tag-not-left-as-it-was" % what,
                  [case, n, repr(got.get(n)), repr(want)])
            continue
        if n not in got:
            sig = ("only-destination-tag-lost" if n in dst0
                   else "only-source-tag-not-added")
            check(False, "C24/%s-%s" % (what, sig), [case, n])
        check(n in eres, "C24/%s-invented-tag" % what, [case, n])
        if got[n] != eres[n]:
            if n in dst0 and eres[n] == dst0[n]:
                sig = "destination-value-rewritten"
            else:
                sig = "source-value-not-taken"
            check(False, "C24/%s-%s" % (what, sig),
                  [case, n, repr(got[n]), repr(eres[n])])
    return refused


def run_e2e(case, env):
    root = env.newdir("c24")
    sel = _selector(case["sel"])
    srcd = {n: _value(env, v) for n, v in case["src"].items()}
    dstd = {n: _value(env, v) for n, v in case["dst"].items()}
    ann_src = [n for n in case.get("annotated_src", []) if n in srcd]
    ann_dst = [n for n in case.get("annotated_dst", []) if n in dstd]
    fetched = []
    if case["src_kind"] == "git" and case["dst_kind"] == "git":
        fetched = [_annotated_tag(n, srcd[n]) for n in ann_src]
    src = Store(env, case["src_kind"], os.path.join(root, "src"), srcd,
                "full", annotated=ann_src)
    if case.get("same_branch"):
        return _run_same_branch(case, src, srcd, sel)
    dst = Store(env, case["dst_kind"], os.path.join(root, "dst"), dstd,
                case["dst_template"], annotated=ann_dst,
                known_objects=fetched)
    master = None
    if case["master"] is not None:
        masterd = {n: _value(env, v) for n, v in case["master"].items()}
        master = Store(env, "bzr", os.path.join(root, "master"), masterd)
        b = dst.open()
        b.bind(master.open())
    to_tags = dst.tags()
    concurrent = None
    if case.get("concurrent") and case["dst_kind"] == "bzr" and \
            master is None and dstd:
        # Another writer (its own Branch object) adds a tag to the destination
        # just before merge_to takes its write lock: whatever merge_to read
        # before locking is stale by then, and that tag must not be lost.
        some_rev = sorted(dstd.values())[0]
        tb = to_tags.branch
        real_lock_write = tb.lock_write
        state = {"done": False}

        def lock_write_after_concurrent_writer(*a, **kw):
            if not state["done"]:
                state["done"] = True
                dst.open().tags.set_tag("zz-concurrent", some_rev)
            return real_lock_write(*a, **kw)
        tb.lock_write = lock_write_after_concurrent_writer
        concurrent = ("zz-concurrent", some_rev)
        if "zz-concurrent" in srcd:
            concurrent = None
            tb.lock_write = real_lock_write
    held = None
    if case.get("held_lock") and not case.get("concurrent") and \
            dst.kind != "mem":
        # callers such as pull keep the destination locked around the tag
        # merge: caches of the locked object must not go stale
        held = to_tags.branch.lock_write()
        # ... and have usually looked at the tags already
        to_tags.get_tag_dict()
    try:
        res = src.tags().merge_to(to_tags, overwrite=case["overwrite"],
                                  ignore_master=case["ignore_master"],
                                  selector=sel)
        if held is not None:
            inside = dict(to_tags.get_tag_dict())
    finally:
        if held is not None:
            held.unlock()
    if held is not None:
        check(inside == dst.read(),
              "C24/locked-destination-object-reads-stale-tags",
              [case, repr(inside), repr(dst.read())])
    if concurrent is not None:
        tb.lock_write = real_lock_write
        if not state["done"]:
            concurrent = None        # this merge never locked that object
    if concurrent is not None:
        got_now = dst.open().tags.get_tag_dict()
        check(got_now.get(concurrent[0]) == concurrent[1],
              "C24/tag-written-by-another-writer-before-the-lock-was-lost",
              [case, repr(sorted(got_now))])
        dstd = dict(dstd)
        dstd[concurrent[0]] = concurrent[1]
    check(isinstance(res, tuple) and len(res) == 2,
          "C24/merge_to-result-shape", [case, repr(res)])
    upd, conf = res
    eres, eupd, econf = spec_reconcile(srcd, dstd, case["overwrite"], sel)
    what = "%s-to-%s" % (case["src_kind"], case["dst_kind"])
    pending = []
    refused = _check_store(case, what, dst, eres, eupd, pending)
    exp_upd = dict(eupd)
    exp_conf = set(econf)
    if master is not None:
        if case["ignore_master"]:
            check(master.read() == master.initial,
                  "C24/master-changed-despite-ignore_master",
                  [case, repr(master.read())])
        else:
            mres, mupd, mconf = spec_reconcile(srcd, master.initial,
                                               case["overwrite"], sel)
            _check_store(case, what + "-master", master, mres, mupd)
            exp_upd.update(mupd)
            exp_conf |= set(mconf)
    check(src.read() == srcd, "C24/source-tags-changed", [case])
    # the long-lived destination object sees what a fresh one sees
    if dst.kind != "mem":
        check(dict(to_tags.get_tag_dict()) == dst.read(),
              "C24/%s-destination-object-reads-stale-tags" % what,
              [case, repr(dict(to_tags.get_tag_dict())), repr(dst.read())])
    # open finding: git -> git, the same revision tagged with an annotated
    # tag on one side and a lightweight one on the other is not recognised as
    # an identical definition (reported as conflict, or as update when
    # overwriting); deferred, the other names are compared as usual
    mixed = set()
    if case["src_kind"] == "git" and case["dst_kind"] == "git":
        mixed = set(n for n in srcd if n in dstd and srcd[n] == dstd[n] and
                    (n in ann_src) != (n in ann_dst) and
                    (sel is None or sel(n)))
    for n in sorted(mixed):
        if n in dict(upd) or any(c[0] == n for c in conf):
            pending.append(violation(
                "C24/git-annotated-and-lightweight-tag-of-one-revision-"
                "not-identical", [case, n, repr(upd), repr(sorted(conf))]))
            upd = {k: v for k, v in dict(upd).items() if k != n}
            conf = set(c for c in conf if c[0] != n)
    # reported updates / conflicts (refused tags may or may not be listed)
    got_upd = {n: v for n, v in dict(upd).items() if n not in refused}
    want_upd = {n: v for n, v in exp_upd.items() if n not in refused}
    check(got_upd == want_upd, "C24/%s-updates-differ" % what,
          [case, repr(upd), repr(exp_upd)])
    for n in refused:
        if n in dict(upd):
            check(dict(upd)[n] == exp_upd[n],
                  "C24/%s-updates-differ" % what, [case, n])
    check(set(conf) == exp_conf, "C24/%s-conflicts-differ" % what,
          [case, repr(sorted(conf)), repr(sorted(exp_conf))])
    if not pending and concurrent is None and not case.get("concurrent"):
        # once more with the same objects: everything is now identical or in
        # conflict, so nothing may change and nothing is reported as updated
        before = dst.read()
        mbefore = master.read() if master is not None else None
        upd2, conf2 = src.tags().merge_to(
            to_tags, overwrite=case["overwrite"],
            ignore_master=case["ignore_master"], selector=sel)
        check(dst.read() == before, "C24/%s-second-merge-changes-tags" % what,
              [case, repr(dst.read()), repr(before)])
        if master is not None:
            check(master.read() == mbefore,
                  "C24/%s-second-merge-changes-master" % what, [case])
        left = {n: v for n, v in dict(upd2).items() if n not in refused}
        if master is not None and case["ignore_master"]:
            pass        # the master was never brought up to date
        check(not left, "C24/%s-second-merge-reports-updates" % what,
              [case, repr(upd2)])
        want2 = set() if case["overwrite"] else set(
            c for c in exp_conf if c[0] not in refused)
        got2 = set(c for c in conf2 if c[0] not in refused)
        if not (master is not None and case["ignore_master"]):
            check(got2 == want2,
                  "C24/%s-second-merge-conflicts-differ" % what,
                  [case, repr(sorted(conf2)), repr(sorted(want2))])
    extra = "+" + what
    if ann_src or ann_dst:
        extra += "+annotated"
    if master is not None:
        extra += "+master" + ("-ignored" if case["ignore_master"] else "")
    if refused:
        extra += "+refused"
    lab = _label(case, srcd, dstd, sel, extra)
    if pending:
        pending[0].label = lab
        return pending[0]
    if lab is None:
        if refused:
            return ok("refusal" + extra)
        return trivial()
    return ok(lab)


def _run_same_branch(case, src, srcd, sel):
    """Source and destination are two objects of one branch: nothing to do."""
    if src.kind == "mem":
        return trivial()
    a = src.open()
    b = src.open()
    upd, conf = a.tags.merge_to(b.tags, overwrite=case["overwrite"],
                                ignore_master=case["ignore_master"],
                                selector=sel)
    check(not dict(upd) and not set(conf),
          "C24/merge-into-the-same-branch-reports-changes",
          [case, repr(upd), repr(conf)])
    check(src.read() == srcd, "C24/merge-into-the-same-branch-changes-tags",
          [case, repr(src.read())])
    return ok("same-branch") if srcd else trivial()


# --------------------------------------------------------------- generation

_COLLIDING = ["\xe9", "e\u0301", "A", "a", "a ", " a", "a/b", "a\\b", "a\tb",
              "\u212b", "\xc5", "1", "01", "\U0001d11e", "a\u200b"]
_UNAME = st.one_of(st.sampled_from(_COLLIDING), st.text(
    alphabet=st.one_of(
        st.sampled_from(list("abv01 /._-é  \U0001d11e%,=\t")),
        st.characters(blacklist_categories=("Cs",))),
    min_size=1, max_size=6))
_GNAME_SEG = st.text(alphabet="abv012_-é", min_size=1, max_size=4)
_GNAME = st.lists(_GNAME_SEG, min_size=1, max_size=3).map("/".join)


@st.composite
def _pair(draw, names, src_vals, dst_vals, n_max=10, df_free=False):
    pool = draw(st.lists(names, min_size=draw(st.sampled_from([0, 4, 4, 5])),
                         max_size=n_max, unique=True))
    if df_free:
        # git keeps refs as files: a name cannot also be a directory of
        # another name
        pool = [n for n in pool
                if not any(o != n and o.startswith(n + "/") for o in pool)]
    src = {}
    dst = {}
    for i, n in enumerate(pool):
        if i < 4:
            cls = ["only-src", "only-dst", "equal", "differ"][i]
        else:
            cls = draw(st.sampled_from(["only-src", "only-dst", "equal",
                                        "differ"]))
        if cls == "only-src":
            src[n] = draw(st.sampled_from(src_vals))
        elif cls == "only-dst":
            dst[n] = draw(st.sampled_from(dst_vals))
        else:
            common = [v for v in src_vals if v in dst_vals]
            if cls == "equal" and common:
                src[n] = dst[n] = draw(st.sampled_from(common))
            else:
                a = draw(st.sampled_from(src_vals))
                others = [v for v in dst_vals if v != a]
                if not others:
                    src[n] = a
                    continue
                src[n] = a
                dst[n] = draw(st.sampled_from(others))
    return src, dst


def _sel_for(draw, src):
    if not draw(st.sampled_from([True, False, False])):
        return None
    chars = sorted(set("".join(src))) or ["a"]
    return {"ch": draw(st.sampled_from(chars + ["a", "/"])),
            "neg": draw(st.sampled_from([True, True, False]))}


_REVID = st.one_of(
    st.sampled_from([b"r1", b"r2", b"r3", b"joe@example.com-2011-abc",
                     b"rev-\xc3\xa9", b"git-v1:" + b"1" * 40, b"null:"]),
    st.binary(min_size=1, max_size=8).filter(
        lambda b: not any(c in b for c in b" \t\n\r\x0b\x0c")))


@st.composite
def gen_pure(draw):
    vals = [b2s(v) for v in draw(st.lists(_REVID, min_size=2, max_size=4,
                                          unique=True))]
    src, dst = draw(_pair(_UNAME, vals, vals))
    return {"src": src, "dst": dst, "overwrite": draw(st.booleans()),
            "sel": _sel_for(draw, src)}


@st.composite
def gen_persist(draw):
    tags = draw(st.dictionaries(_UNAME, _REVID.map(b2s), max_size=10))
    return {"tags": tags,
            "via": draw(st.sampled_from(["dict", "api"])),
            "long_lived": draw(st.booleans()),
            "delete": (draw(st.lists(st.sampled_from(sorted(tags)),
                                     unique=True, max_size=3))
                       if tags else []),
            "real": draw(st.sampled_from([True, False, False])),
            "format": draw(st.sampled_from(["2a", "2a", "pack-0.92", "1.9"]))}


@st.composite
def gen_e2e(draw):
    src_kind = draw(st.sampled_from(["bzr", "bzr", "git", "mem"]))
    if src_kind == "mem":
        dst_kind = draw(st.sampled_from(["bzr", "git"]))
    else:
        dst_kind = draw(st.sampled_from(["bzr", "bzr", "git"]))
    anygit = "git" in (src_kind, dst_kind)
    names = _GNAME if anygit else _UNAME
    dst_template = None
    if dst_kind == "git":
        # git -> git always into a repository holding every commit; others
        # may meet a repository that lacks c3
        dst_template = "full" if src_kind == "git" else draw(
            st.sampled_from(["full", "part", "part"]))
    src_vals = GIT_VALS if src_kind == "git" else GIT_VALS + sorted(BZR_VALS)
    if dst_kind == "git":
        dst_vals = GIT_VALS if dst_template == "full" else GIT_VALS[:2]
    else:
        dst_vals = GIT_VALS + sorted(BZR_VALS)
    src, dst = draw(_pair(names, src_vals, dst_vals, n_max=8,
                          df_free=anygit))
    master = None
    ignore_master = draw(st.booleans())
    if dst_kind == "bzr" and src_kind != "mem" and draw(
            st.sampled_from([True, False])):
        # the master has its own view of some of the same names
        allv = GIT_VALS + sorted(BZR_VALS)
        master = {}
        for n in sorted(set(src) | set(dst)):
            how = draw(st.sampled_from(["absent", "as-dst", "as-src",
                                        "other"]))
            if how == "as-dst" and n in dst:
                master[n] = dst[n]
            elif how == "as-src" and n in src:
                master[n] = src[n]
            elif how == "other":
                master[n] = draw(st.sampled_from(allv))
    return {"src_kind": src_kind, "dst_kind": dst_kind,
            "dst_template": dst_template, "src": src, "dst": dst,
            "master": master, "ignore_master": ignore_master,
            "overwrite": draw(st.booleans()), "sel": _sel_for(draw, src),
            "concurrent": draw(st.sampled_from([False, False, True])),
            "same_branch": draw(st.sampled_from([False] * 11 + [True])),
            "held_lock": draw(st.sampled_from([False, True])),
            "annotated_src": (draw(st.lists(st.sampled_from(sorted(src)),
                                            unique=True))
                              if src_kind == "git" and src else []),
            "annotated_dst": (draw(st.lists(st.sampled_from(sorted(dst)),
                                            unique=True))
                              if dst_kind == "git" and dst and
                              draw(st.booleans()) else [])}


def kinds(tier):
    return [
        Kind("reconcile-pure", run_pure, strategy=gen_pure(),
             examples={"quick": 4000, "thorough": 300000}),
        Kind("tag-dict-persistence", run_persist, strategy=gen_persist(),
             examples={"quick": 1000, "thorough": 40000}),
        Kind("merge-to-end-to-end", run_e2e, strategy=gen_e2e(),
             setup=setup_git, teardown=teardown_git,
             examples={"quick": 1500, "thorough": 60000}),
    ]


REGISTERED = True
LEVEL_TEXT = ("The reconciliation rules are compared with a direct transcription "
              "of the property on generated dictionary pairs, and the same pairs "
              "are pushed through merge_to between real 2a, git and in-memory "
              "stores (with bound masters) and read back after reopening. "
              "Sampled pairs: exploration.")
LEVEL_NOTE = ("git stores only take valid ref names and revisions present in "
              "the repository (refusals leave the destination unchanged); "
              "annotated git tags and remote git targets are not generated.")
