"""C17 - tree merges obey the three-way merge laws (OTHER==BASE, THIS==BASE,
identical changes, disjoint changes) for merge3 / weave / lca, bzr and git."""

import os

from hypothesis import strategies as st

from vf.api import Kind, check, ok, rejected, trivial
from vf.lib import bz, history, treemodel as tm

PROPERTY = "C17"
LEVEL = "exploration"
TECHNIQUE = ("Hypothesis-generated BASE tree and edit scripts (treemodel ops + "
             "kind changes) built as real revisions; merge through "
             "WorkingTree.merge_from_branch / Merger.do_merge; algebraic-law "
             "oracle on the resulting working tree (own tree model for the "
             "union law)")
RULE = ("BASE = 2-8 generated entries (files, directories, symlinks, exec "
        "bits, odd names); edit scripts of 1-5 ops (add, modify, rename / "
        "move, recursive delete, chmod, retarget, kind change of a file / "
        "symlink / empty directory keeping the file id). Families: OTHER==BASE "
        "(same revision through Merger, same revision through "
        "merge_from_branch -> PointlessMerge, or an empty commit), THIS==BASE, "
        "identical script on both sides with shared file ids, disjoint "
        "scripts. Disjoint (bzr): written id sets disjoint, no side adds / "
        "moves into a directory the other side deleted or kind-changed, and "
        "the union is a valid tree (no duplicate name, no parent loop); "
        "disjoint (git): changed path sets disjoint and the union is a valid "
        "tree. Options: merge type, criss-cross history whose LCAs carry "
        "BASE's tree (drives _entries_lca), part of THIS's script left "
        "uncommitted (merge3 only), explicit or searched BASE; criss-cross "
        "histories whose LCAs differ (one LCA made a delta that both tips "
        "merged; the laws are then relative to BASE + delta). A third of the "
        "bzr disjoint cases start from directed shapes around parent "
        "resolution: one side renames / moves directory D (optionally "
        "creating a new directory at D's old path), the other side adds, "
        "moves or renames entries in D, also with the sides swapped. Git "
        "cases keep "
        "all file contents / symlink targets pairwise dissimilar (rename and "
        "copy inference works on content) except a 1-in-6 class; inputs of "
        "five classes behind open findings (symlink loops; git: similar "
        "files on both sides, renamed file whose path is re-used, directory "
        "renamed on both sides, similar contents) are recognised from the "
        "case and report one signature per class. Non-trivial: "
        "a script with a rename or kind change, or the disjoint family with "
        "both scripts non-empty. Distinct by case hash.")
ASSUMPTIONS = [
    "tree set-up through vf.lib.history.build_wt is correct; it is cross-"
    "checked against the tree model before every merge (a mismatch is a "
    "harness error, not a finding)",
    "weave / lca merge types run on committed histories only (they need text "
    "history) and on bzr trees only (git trees have no per-file graph)",
    "git has no rename tracking: disjointness for git is decided on paths "
    "(and a side may not work below a directory the other side creates or "
    "empties); git working trees are re-read from the committed tree before "
    "the merge (wt.reset_state) because committing can drop index entries "
    "(commit defect outside this property); THIS-side scripts on git never "
    "re-use a vacated path and directory deletes are expanded to their "
    "leaves (git does not version directories)",
]
LEVEL_TEXT = ("Sampled exploration of the four algebraic merge laws on real "
              "2a and git working trees: the state after the merge (paths, "
              "kinds, contents, exec bits, file ids for bzr, stray files on "
              "disk, recorded conflicts) is compared with THIS before the "
              "merge, with OTHER's revision tree, or with the union computed "
              "by an independent id / path model.")
LEVEL_NOTE = ("Trees bounded to ~14 entries and scripts to 5 ops per side; "
              "the union law needs a definition of 'disjoint' (stated in the "
              "rule); criss-cross histories have LCAs equal to BASE or one LCA "
              "carrying a delta that both tips merged.")
REGISTERED = True
NONTRIVIAL_FLOOR = {"quick": 150, "thorough": 3000}

FAMILIES = ["other=base", "this=base", "identical", "disjoint"]
EDIT_KINDS = ["add", "add", "modify", "modify", "rename", "rename", "rename",
              "delete", "chmod", "retarget", "add_dir", "kindchange",
              "kindchange"]


# ------------------------------------------------------------------ model

def replay(model, ops):
    m = tm.clone(model)
    tm.apply_ops(m, ops)
    return m


def script_sets(model, ops):
    """(written ids, directories depended on, deleted ids) of a script."""
    m = tm.clone(model)
    written, deps, deleted = set(), set(), set()
    for op in ops:
        k = op[0]
        if k == "add":
            written.add(op[1])
            deps.add(op[2])
        elif k == "rename":
            written.add(op[1])
            deps.add(op[2])
        elif k == "delete":
            victims = [op[1]] + tm.descendants(m, op[1])
            written.update(victims)
            deleted.update(victims)
        else:
            written.add(op[1])
        tm.apply_op(m, op)
    return written, deps, deleted


def id_disjoint(base, dt, do):
    wt_, dt_, xt = script_sets(base, dt)
    wo, do_, xo = script_sets(base, do)
    if wt_ & wo:
        return False
    if (dt_ & xo) or (do_ & xt):
        return False
    try:
        merged = replay(replay(base, dt), do)
    except KeyError:
        return False
    return tm.valid(merged)


def leaves(model):
    """{path: [kind, content, exec]} of the non-directory entries."""
    return {p: v[:3] for p, v in tm.snapshot(model, with_ids=False).items()
            if v[0] != "directory"}


def path_union(base, mt, mo):
    """Path-level union of two change sets or None if they are not disjoint /
    the union is not a tree."""
    pb, pt, po = leaves(base), leaves(mt), leaves(mo)
    ct = {p for p in set(pb) | set(pt) if pb.get(p) != pt.get(p)}
    co = {p for p in set(pb) | set(po) if pb.get(p) != po.get(p)}
    if ct & co:
        return None
    out = dict(pb)
    for p in ct:
        if p in pt:
            out[p] = pt[p]
        else:
            out.pop(p, None)
    for p in co:
        if p in po:
            out[p] = po[p]
        else:
            out.pop(p, None)
    for p in out:
        parts = p.split("/")
        for i in range(1, len(parts)):
            if "/".join(parts[:i]) in out:
                return None
    # a directory emptied / created by one side while the other side works
    # below the same directory is a structural interaction, not a disjoint
    # change: keep the two sides in different directories of the changed
    # paths' parents unless the parent exists on all three sides
    def dirs_of(ps):
        d = set()
        for p in ps:
            parts = p.split("/")
            for i in range(1, len(parts)):
                d.add("/".join(parts[:i]))
        return d
    db, dt_, do_ = dirs_of(pb), dirs_of(pt), dirs_of(po)
    for p in ct:
        for d in dirs_of([p]):
            if (d in db) != (d in do_):
                return None
    for p in co:
        for d in dirs_of([p]):
            if (d in db) != (d in dt_):
                return None
    return out


def rename_plus_reuse(m_base, m_other):
    """Path-level shape that git rename detection can read as 'p renamed to q'
    while p still exists in OTHER: a leaf path whose kind changed (or a file
    that was rewritten) between BASE and OTHER, and a leaf path new in
    OTHER."""
    pb, po = leaves(m_base), leaves(m_other)
    changed = [p for p in pb if p in po and pb[p][:2] != po[p][:2]]
    added = [p for p in po if p not in pb]
    return bool(changed) and bool(added)


def similar(a, b):
    """Over-approximation of git's content similarity (dulwich: >= 60 % of
    the bytes in common line blocks): >= 50 %, identical, or both empty."""
    if a[0] != b[0]:
        return False
    if a[1] == b[1]:
        return True
    if a[0] != "file":
        return False
    la, lb = a[1].splitlines(True), b[1].splitlines(True)
    common = 0
    rest = list(lb)
    for l in la:
        if l in rest:
            rest.remove(l)
            common += len(l)
    return common * 100 >= 50 * max(len(a[1]), len(b[1]), 1)


def cross_pairable(m_this, m_other):
    """A leaf only THIS has (or has differently) and a similar leaf only OTHER has: git rename
    inference between THIS and OTHER (find_previous_path) can pair them."""
    pt, po = leaves(m_this), leaves(m_other)
    # (a rewritten file counts as removed + added for the inference)
    only_t = [pt[p] for p in sorted(pt) if po.get(p) != pt[p]]
    only_o = [po[p] for p in sorted(po) if p not in pt]
    return any(similar(a, b) for a in only_t for b in only_o)


def dissimilar(case):
    """No two file contents / symlink targets written by the case are
    similar (then git's content-based rename and copy inference has nothing
    ambiguous to work on)."""
    vals = []
    for ops in (case["base"], case["dt"],
                [] if case["family"] == "identical" else case["do"]):
        for op in ops:
            if op[0] == "add" and op[4] in ("file", "symlink"):
                vals.append([op[4], op[5]])
            elif op[0] == "modify":
                vals.append(["file", op[2]])
            elif op[0] == "retarget":
                vals.append(["symlink", op[2]])
    return not any(similar(vals[i], vals[j]) for i in range(len(vals))
                   for j in range(i + 1, len(vals)))


def _dirs_with_content(pl):
    """{directory path: {relative leaf path: value}} of a leaves map"""
    out = {}
    for p, v in pl.items():
        parts = p.split("/")
        for i in range(1, len(parts)):
            d = "/".join(parts[:i])
            out.setdefault(d, {})["/".join(parts[i:])] = v
    return out


def dir_renamed(m_base, m_other):
    """A (non-empty) directory of BASE is gone in OTHER and a directory with
    exactly its content is new in OTHER: git reads this as a tree rename."""
    db, do_ = _dirs_with_content(leaves(m_base)), \
        _dirs_with_content(leaves(m_other))
    gone = [d for d in sorted(db) if d not in do_]
    new = [d for d in sorted(do_) if d not in db]
    # (the renamed directory may have been edited as well: at least half of
    # its relative leaf paths are found again)
    return any(db[g] == do_[n] or
               2 * len(set(db[g]) & set(do_[n])) >= len(db[g])
               for g in gone for n in new)


def dir_copied(m_base, m_other):
    """A directory new in OTHER holds exactly what a directory of BASE (or
    BASE's root) held, and that BASE directory still exists in OTHER: git
    reports the new directory as a copy."""
    pb, po = leaves(m_base), leaves(m_other)
    db, do_ = _dirs_with_content(pb), _dirs_with_content(po)
    db[""] = dict(pb)
    do_[""] = dict(po)
    new = [d for d in sorted(do_) if d not in db]
    return any(db[g] == do_[n] for g in sorted(db) if g in do_ for n in new)


def leaf_dir_swap(m_base, m_other):
    """A file / symlink path of one tree is a directory in the other."""
    pb, po = leaves(m_base), leaves(m_other)
    db, do_ = _dirs_with_content(pb), _dirs_with_content(po)
    return any(p in do_ for p in pb) or any(p in db for p in po)


def symlink_loop(model):
    """Some symlink of the tree resolves into a cycle of symlinks."""
    by_path = tm.paths(model)

    def resolve(path, hops):
        # -> True if resolving `path` runs into a loop
        parts = [p for p in path.split("/") if p]
        cur = []
        for i, part in enumerate(parts):
            if part == "..":
                if not cur:
                    return False      # leaves the tree: not our business
                cur.pop()
                continue
            cur.append(part)
            fid = by_path.get("/".join(cur))
            if fid is None:
                return False
            e = model[fid]
            if e["kind"] == "symlink":
                if hops > 40:
                    return True
                tgt = e["content"]
                if tgt.startswith("/"):
                    return False
                rest = "/".join(parts[i + 1:])
                base = "/".join(cur[:-1])
                nxt = "/".join(x for x in (base, tgt, rest) if x)
                return resolve(nxt, hops + 1)
        return False
    return any(resolve(p, 0) for p, fid in sorted(by_path.items())
               if model[fid]["kind"] == "symlink")


def symlink_to_dir_becomes_dir(m_this, m_other):
    """THIS has a symlink that points at a directory of the tree and OTHER
    turns that entry (same file id / same path) into a real directory."""
    by_path = tm.paths(m_this)
    po = tm.paths(m_other)
    for fid in sorted(m_this):
        e = m_this[fid]
        if e["kind"] != "symlink":
            continue
        path = tm.path_of(m_this, fid)
        same_path = po.get(path)
        if not ((fid in m_other and m_other[fid]["kind"] == "directory") or
                (same_path is not None and
                 m_other[same_path]["kind"] == "directory")):
            continue
        cur = path.split("/")[:-1]
        ok_ = True
        for part in e["content"].split("/"):
            if part == "..":
                if not cur:
                    ok_ = False
                    break
                cur.pop()
            elif part and part != ".":
                cur.append(part)
        tgt = by_path.get("/".join(cur)) if ok_ else None
        hops = 0
        while tgt is not None and m_this[tgt]["kind"] == "symlink" and hops < 8:
            # one more level is enough for labelling purposes
            tp = tm.path_of(m_this, tgt).split("/")[:-1]
            for part in m_this[tgt]["content"].split("/"):
                if part == "..":
                    if tp:
                        tp.pop()
                elif part and part != ".":
                    tp.append(part)
            tgt = by_path.get("/".join(tp))
            hops += 1
        if tgt is not None and m_this[tgt]["kind"] == "directory":
            return True
    return False


def features(model, ops):
    f = set()
    seen_del = set()
    for op in ops:
        if op[0] == "rename":
            f.add("rename")
        elif op[0] == "delete":
            seen_del.add(op[1])
            f.add("delete")
        elif op[0] == "add" and op[1] in seen_del:
            f.add("kindchange")
        elif op[0] == "chmod":
            f.add("chmod")
    return f


# ------------------------------------------------------------------ set-up

def rev(i, rid, parents, ops):
    return {"id": rid, "parents": parents, "ghosts": [], "ops": ops,
            "msg": rid, "ts": bz.T0 + 100 * i, "tz": 0,
            "committer": bz.COMMITTER, "props": {}}


def build_spec(case):
    fam = case["family"]
    dt = case["dt"][:len(case["dt"]) - case["dirty"]]
    do = case["do"]
    revs = [rev(0, "r0", [], case["base"])]
    tbase = obase = "r0"
    if case["criss"]:
        # criss-cross: x2 and y2 merged each other's parent; both carry the
        # tree BASE' = r0 + criss_delta (the delta was made in x1 and arrives
        # in y2 through the merge), so the LCAs x1 / y1 differ when the delta
        # is not empty and the laws are stated relative to BASE'
        da = case.get("criss_delta") or []
        revs += [rev(1, "x1", ["r0"], da), rev(2, "y1", ["r0"], []),
                 rev(3, "x2", ["x1", "y1"], []),
                 rev(4, "y2", ["y1", "x1"], da)]
        tbase, obase = "x2", "y2"
    other = "o"
    if fam == "other=base" and case["mode"] in ("direct", "pointless"):
        other = "r0"
    else:
        revs.append(rev(5, "o", [obase], do))
    revs.append(rev(6, "t", [tbase], dt))
    return {"revs": revs, "tags": {}}, other


def merge_type(name):
    from breezy import merge as _merge
    return {"merge3": _merge.Merge3Merger, "weave": _merge.WeaveMerger,
            "lca": _merge.LCAMerger}[name]


def prune_empty_dirs(root):
    for d, ds, fs in os.walk(root, topdown=False):
        if d == root or d.startswith(os.path.join(root, ".git")):
            continue
        if not os.listdir(d):
            os.rmdir(d)


def tree_state(wt, git):
    """(versioned snapshot, stray-file view, conflicts)"""
    snap = bz.snapshot_tree(wt, with_ids=not git, contents=True)
    if git:
        snap = {p: v for p, v in snap.items() if v[0] != "directory"}
    fs = bz.snapshot_fs(wt.basedir)
    if git:
        fs = {p: v for p, v in fs.items() if v[0] != "directory"}
    disk = {p: [v[0], v[1], v[2]] for p, v in fs.items()}
    confl = sorted([c.typestring, c.path] for c in wt.conflicts())
    return snap, disk, confl


def expect_snapshot(model, git):
    snap = bz.model_snapshot(model, with_ids=not git, contents=True)
    if git:
        snap = {p: v for p, v in snap.items() if v[0] != "directory"}
    return snap


def diff(a, b):
    return {k: [a.get(k), b.get(k)] for k in sorted(set(a) | set(b))
            if a.get(k) != b.get(k)}


# ------------------------------------------------------------------ run

def run(case, env):
    from breezy import errors as _errors
    from breezy import merge as _merge
    from breezy import workingtree as _wt
    from dromedary import errors as _dromedary_errors
    fam = case["family"]
    git = case["fmt"] == "git"
    mt = case["mtype"]
    d = env.newdir()
    spec, other = build_spec(case)
    wt, models, idmap = history.build_wt(spec, os.path.join(d, "t"),
                                         format=case["fmt"])
    root = wt.basedir
    m_base = models["x2"] if case["criss"] else models["r0"]
    m_this = tm.clone(models["t"])
    if git:
        # (a) a git working tree can lose index entries when it commits
        # (copy detection / kind changes; commit defects outside this
        # property): re-read the index from the committed tree; (b) git does
        # not version directories: leave no empty ones on disk
        with wt.lock_write():
            wt.reset_state([idmap["t"]])
        history.materialize(root, m_this)
    if case["dirty"]:
        with wt.lock_write():
            bz.apply_ops_wt(wt, m_this,
                            case["dt"][len(case["dt"]) - case["dirty"]:],
                            use_ids=True)
    if git:
        prune_empty_dirs(root)
    bz.age_files(root)
    m_other = models[other]
    wt = bz.open_tree(root)
    before, disk0, confl0 = tree_state(wt, git)
    # harness self-check: the real trees are what the model says
    if before != expect_snapshot(m_this, git) or confl0:
        raise AssertionError("set-up differs from model: %r %r" % (
            diff(before, expect_snapshot(m_this, git)), confl0))
    with wt.branch.repository.lock_read():
        rt = wt.branch.repository.revision_tree(idmap[other])
        other_snap = bz.snapshot_tree(rt, with_ids=not git, contents=True)
    if git:
        other_snap = {p: v for p, v in other_snap.items()
                      if v[0] != "directory"}
    if other_snap != expect_snapshot(m_other, git):
        raise AssertionError("OTHER differs from model: %r" % (
            diff(other_snap, expect_snapshot(m_other, git)),))
    # ---- expected result
    if fam == "other=base":
        want = before
    elif fam == "this=base":
        want = other_snap
    elif fam == "identical":
        want = before
        if other_snap != before:
            raise AssertionError("identical family: sides differ")
    else:
        if git:
            u = path_union(m_base, m_this, m_other)
            if u is None:
                raise AssertionError("generator: not path-disjoint")
            want = {p: [v[0], v[1], v[2], None] for p, v in u.items()}
        else:
            if not id_disjoint(m_base, case["dt"], case["do"]):
                raise AssertionError("generator: not id-disjoint")
            want = expect_snapshot(
                replay(replay(m_base, case["dt"]), case["do"]), git)
    # ---- separately labelled input classes behind open findings: a case
    # of such a class reports "<class>-crashes-merge" / "<class>-merge-wrong"
    # whatever the symptom, so the rest of the space stays searchable
    cls = None
    if git and case["criss"]:
        cls = "git-criss-cross"
    elif symlink_to_dir_becomes_dir(m_this, m_other):
        cls = "symlink-to-directory-becomes-directory"
    elif git and leaf_dir_swap(m_base, m_other):
        cls = "git-file-replaced-by-directory"
    elif git and fam == "disjoint" and cross_pairable(m_this, m_other):
        cls = "git-similar-files-paired-across-sides"
    elif git and fam == "identical" and dir_renamed(m_base, m_other):
        cls = "git-directory-renamed-on-both-sides"
    elif git and dir_copied(m_base, m_other):
        cls = "git-directory-looks-like-copy"
    elif git and rename_plus_reuse(m_base, m_other):
        cls = "git-renamed-file-path-reused"
    elif git and not dissimilar(case) and fam not in ("this=base",
                                                      "other=base"):
        # (when one side is BASE the result is the other side whatever the
        # rename / copy inference makes of similar contents: those families
        # are judged like any other case)
        cls = "git-similar-contents"
    elif (symlink_loop(m_base) or symlink_loop(m_this) or
          symlink_loop(m_other)):
        cls = "symlink-loop"
    tag = fam.replace("=", "-eq-")

    def sig(what):
        if cls is not None:
            return "C17/%s-merge-wrong" % cls
        return "C17/%s-%s" % (tag, what)
    # ---- merge
    pointless = False
    try:
        if case["mode"] in ("branch", "pointless", "empty-commit"):
            try:
                with wt.lock_write():
                    cooked = wt.merge_from_branch(
                        wt.branch, to_revision=idmap[other],
                        merge_type=merge_type(mt), force=bool(case["dirty"]))
            except _wt.PointlessMerge:
                pointless = True
                cooked = []
        else:
            with wt.lock_write():
                base_rev = None
                if case["mode"] in ("direct", "merger-explicit-base"):
                    base_rev = idmap["r0"]
                merger = _merge.Merger.from_revision_ids(
                    wt, other=idmap[other], base=base_rev)
                merger.merge_type = merge_type(mt)
                cooked = merger.do_merge()
                if case["mode"] != "direct":
                    merger.set_pending()
        wt = bz.open_tree(root)
        after, disk, confl = tree_state(wt, git)
    except (OSError, KeyError, AttributeError, _errors.BzrError,
            _dromedary_errors.PathError) as e:
        # outside the labelled classes every exception keeps its own
        # signature (runner: C17/exc:<Type>@<file>:<func>)
        if cls is None:
            raise
        check(False, "C17/%s-crashes-merge" % cls,
              {"case": case, "error": "%s: %s" % (type(e).__name__, e)})
    detail = {"case": case, "conflicts": confl,
              "cooked": [str(c) for c in cooked]}
    check(not confl and not cooked, sig("reports-conflicts"),
          [detail, diff(want, after)])
    check(after == want, sig("tree-differs"), [detail, diff(want, after)])
    vers = {p: v[:3] for p, v in after.items()}
    check(disk == vers, sig("disk-differs-from-tree"),
          [detail, diff(vers, disk)])
    if pointless:
        if case["mode"] != "pointless":
            return rejected("PointlessMerge-unexpected", label=None)
        return rejected("PointlessMerge", label=label(case, m_base))
    if case["mode"] == "pointless":
        check(False, "C17/other-eq-base-no-PointlessMerge", detail)
    lab = label(case, m_base)
    return ok(lab) if lab else trivial()


def label(case, m_base):
    fam = case["family"]
    ft = features(m_base, case["dt"])
    fo = features(m_base, case["do"])
    f = ft | fo
    nt = bool(f & {"rename", "kindchange"})
    if fam == "disjoint" and case["dt"] and case["do"]:
        nt = True
    if not nt:
        return None
    feat = ("kindchange" if "kindchange" in f else
            "rename" if "rename" in f else "plain")
    extra = ("criss-lcas-differ" if case.get("criss_delta") else
             "criss" if case["criss"] else
             "dirty" if case["dirty"] else case["mode"])
    return "%s/%s/%s/%s/%s" % (case["fmt"], case["mtype"], fam, feat, extra)


# ------------------------------------------------------------------ strategy

def draw_edit(draw, model, ids, kw, git=False, kindchange=True):
    """One applicable edit (list of ops; a kind change is delete + re-add of
    the same file id at the same place) or [] when not applicable."""
    k = draw(st.sampled_from(EDIT_KINDS if kindchange else EDIT_KINDS[:-2]))
    if k != "kindchange":
        op = tm.draw_op(draw, model, ids, kinds=[k], **kw)
        if op is None:
            return []
        if git and k == "delete" and model[op[1]]["kind"] == "directory":
            # git does not version directories: delete the leaves
            return [["delete", f] for f in sorted(tm.descendants(model, op[1]))
                    if model[f]["kind"] != "directory"]
        return [op]
    cands = sorted(
        f for f, e in model.items() if f != tm.ROOT_ID and (
            e["kind"] != "directory" or
            (not git and not tm.children(model, f))))
    if not cands:
        return []
    f = draw(st.sampled_from(cands))
    e = model[f]
    newk = draw(st.sampled_from(
        [x for x in ("file", "symlink", "directory") if x != e["kind"]]))
    if newk == "file":
        content, ex = draw(tm.text_strategy()), draw(st.booleans())
    elif newk == "symlink":
        content, ex = draw(st.sampled_from(["a", "b/c", "nowhere"])), False
    else:
        content, ex = None, False
    return [["delete", f],
            ["add", f, e["parent"], e["name"], newk, content, ex]]


class Uniq:
    """Rewrites file contents / symlink targets of drawn ops so that no two
    are equal or similar (git infers renames and copies from content)."""

    def __init__(self):
        self.n = 0

    def __call__(self, ops):
        out = []
        for op in ops:
            op = list(op)
            if op[0] == "add" and op[4] == "file":
                self.n += 1
                op[5] = "".join("u%d-%d\n" % (self.n, i) for i in range(3))
            elif op[0] == "add" and op[4] == "symlink":
                self.n += 1
                op[5] = "target-%d" % self.n
            elif op[0] == "modify":
                self.n += 1
                op[2] = "".join("u%d-%d\n" % (self.n, i) for i in range(3))
            elif op[0] == "retarget":
                self.n += 1
                op[2] = "target-%d" % self.n
            out.append(op)
        return out


def draw_script(draw, model, ids, kw, n_min, n_max, accept=None,
                git=False, kindchange=True, uniq=None):
    """Draw a script, applying it to `model`; `accept(ops_so_far + edit)`
    filters edits by construction (a refused edit is simply skipped)."""
    ops = []
    for _ in range(draw(st.integers(n_min, n_max))):
        edit = draw_edit(draw, model, ids, kw, git, kindchange)
        if not edit:
            continue
        if uniq is not None:
            edit = uniq(edit)
        if accept is not None and not accept(ops + edit):
            continue
        for op in edit:
            tm.apply_op(model, op)
        ops += edit
    return ops


def shape_scripts(draw, base_ops, base):
    """Directed disjoint shapes (bzr): which directory a moved / added entry
    lands in when the other side renamed that directory or re-used its old
    path. Returns (base_ops, base, THIS prefix, OTHER prefix); the base gets
    the directories / files a shape needs when it lacks them."""
    base_ops = list(base_ops)
    base = tm.clone(base)

    def need(op):
        base_ops.append(op)
        tm.apply_op(base, op)
    dirs_ = [d for d in tm.dirs(base) if d != tm.ROOT_ID]
    if not dirs_ or draw(st.booleans()):
        need(["add", "sd-id", tm.ROOT_ID, "zd", "directory", None, False])
        dirs_ = dirs_ + ["sd-id"]
    D = draw(st.sampled_from(sorted(dirs_)))
    files = [c for c in tm.children(base, D) if base[c]["kind"] == "file"]
    if not files:
        need(["add", "sf-id", D, "zf", "file", "in D\n", False])
        files = ["sf-id"]
    f = draw(st.sampled_from(sorted(files)))
    banned = set(tm.descendants(base, D)) | {D}
    others = [d for d in tm.dirs(base) if d not in banned and
              d != tm.ROOT_ID]
    if not others:
        need(["add", "se-id", tm.ROOT_ID, "ze", "directory", None, False])
        others = ["se-id"]
    E = draw(st.sampled_from(sorted(others)))
    outside = [x for x, e in base.items() if e["kind"] in ("file", "symlink")
               and x not in banned]
    pD, nD = base[D]["parent"], base[D]["name"]
    # THIS renames D in place or moves it below E
    move_d = draw(st.sampled_from([["rename", D, pD, "zr1"],
                                   ["rename", D, pD, "zr1"],
                                   ["rename", D, E, "zr1"]]))
    shape = draw(st.sampled_from(["old-path-reused", "old-path-reused",
                                  "basename-in-renamed-dir",
                                  "moved-into-renamed-dir",
                                  "subtree-added-in-renamed-dir",
                                  "one-path-two-directories",
                                  "one-path-two-directories"]))
    if shape == "one-path-two-directories":
        # THIS renames D away and another directory C (with a file) onto D's
        # old path; OTHER renames a file inside C in place and adds a file
        # under D: the path of D names different directories in the two trees
        cands = [d for d in others if base[d]["parent"] == pD] or None
        if cands is None:
            need(["add", "sc-id", pD, "zc", "directory", None, False])
            cands = ["sc-id"]
        C = draw(st.sampled_from(sorted(cands)))
        cfiles = [c for c in tm.children(base, C)
                  if base[c]["kind"] == "file"]
        if not cfiles:
            need(["add", "scf-id", C, "zcf", "file", "in C\n", False])
            cfiles = ["scf-id"]
        g = draw(st.sampled_from(sorted(cfiles)))
        pre_t = [["rename", D, pD, "zr1"], ["rename", C, pD, nD]]
        pre_o = [["rename", g, C, "zr2"],
                 ["add", "os1-id", D, "zn", "file", "new in D\n", False]]
    elif shape == "old-path-reused":
        pre_t = [move_d,
                 ["add", "ts1-id", pD, nD, "directory", None, False]]
        if draw(st.booleans()):
            pre_t.append(["add", "ts2-id", "ts1-id", "zin", "file",
                          "decoy\n", False])
        if outside and draw(st.booleans()):
            pre_o = [["rename", draw(st.sampled_from(sorted(outside))), D,
                      "zm"]]
        else:
            pre_o = [["add", "os1-id", D, "zn", "file", "new in D\n",
                      draw(st.booleans())]]
    elif shape == "basename-in-renamed-dir":
        pre_t = [move_d]
        pre_o = [["rename", f, D, "zr2"]]
    elif shape == "moved-into-renamed-dir":
        # OTHER moves f out of D into E; THIS renamed E
        pre_t = [["rename", E, base[E]["parent"], "zr1"]]
        pre_o = [["rename", f, E, draw(st.sampled_from(["zr2",
                                                        base[f]["name"]]))]]
    else:
        pre_t = [move_d]
        pre_o = [["add", "os1-id", D, "zsub", "directory", None, False],
                 ["add", "os2-id", "os1-id", "zf2", "file", "deep\n", False]]
    if draw(st.booleans()):
        # the same shape with the sides swapped
        pre_t, pre_o = pre_o, pre_t
    if not id_disjoint(base, pre_t, pre_o):
        return base_ops, base, [], []
    return base_ops, base, pre_t, pre_o


def _ids(prefix, tomb):
    ids = tm.IdSource(prefix)
    if tomb:
        # committing a path whose kind changed makes a git working tree drop
        # the path from its index (commit defect outside this property):
        # THIS-side scripts on git never re-use a vacated path
        ids.tomb = set()
    return ids


@st.composite
def gen_case(draw, fmt="2a", mtypes=("merge3",)):
    git = fmt == "git"
    kw = dict(symlinks=True, execs=True, odd_names=True)
    ids = tm.IdSource("b")
    base = tm.new_model()
    base_ops = tm.draw_ops(draw, base, ids, n_min=2, n_max=8,
                           kinds=["add", "add", "add", "add_dir"], **kw)
    uniq = None
    if git and draw(st.integers(0, 5)) != 0:
        # git infers renames / copies from content: keep contents pairwise
        # dissimilar except in a low-weight class (open findings live there)
        uniq = Uniq()
        base_ops = uniq(base_ops)
        base = replay(tm.new_model(), base_ops)
    fam = draw(st.sampled_from(FAMILIES + ["disjoint", "this=base"]))
    mt = draw(st.sampled_from(list(mtypes)))
    dt, do = [], []
    da = []
    if not git and draw(st.integers(0, 5)) == 0:
        # criss-cross history whose two LCAs differ (see build_spec): the
        # scripts below are drawn against BASE' = base + da
        da = draw_script(draw, tm.clone(base), tm.IdSource("a"), kw, 1, 3)
    root_ops = base_ops
    base = replay(base, da)
    if fam == "other=base":
        dt = draw_script(draw, tm.clone(base), _ids("t", git), kw, 1, 5,
                         git=git, kindchange=not git, uniq=uniq)
    elif fam == "this=base":
        do = draw_script(draw, tm.clone(base), tm.IdSource("o"), kw, 1, 5,
                         git=git, uniq=uniq)
        files = [f for f, e in sorted(base.items())
                 if f != tm.ROOT_ID and e["kind"] == "file" and e["content"]]
        if git and files and draw(st.integers(0, 2)) == 0:
            # directed: OTHER renames (or deletes) a file and adds a
            # byte-identical copy of it in the same revision - dulwich reports
            # a rename plus a copy; the merge result is OTHER all the same
            f = draw(st.sampled_from(files))
            e = base[f]
            taken = {x["name"] for x in base.values()
                     if x.get("parent") == e["parent"]}
            n1, n2 = [n for n in ("cp1", "cp2", "cp3") if n not in taken][:2]
            do = [["delete", f]] if draw(st.booleans()) else \
                [["rename", f, e["parent"], n1]]
            do.append(["add", "ocopy1", e["parent"], n2, "file", e["content"],
                       e["exec"]])
    elif fam == "identical":
        dt = draw_script(draw, tm.clone(base), _ids("s", git), kw, 1, 5,
                         git=git, kindchange=not git, uniq=uniq)
        do = [list(op) for op in dt]
    else:
        pre_t, pre_o = [], []
        if not git and not da and draw(st.integers(0, 2)) == 0:
            # directed shapes around parent resolution (see shape_scripts)
            root_ops, base, pre_t, pre_o = shape_scripts(draw, base_ops, base)
        mt_ = replay(base, pre_t)
        dt = pre_t + draw_script(draw, mt_, _ids("t", git), kw,
                                 0 if pre_t else 1, 3 if pre_t else 4,
                                 git=git, kindchange=not git, uniq=uniq)
        if pre_t and not id_disjoint(base, dt, pre_o):
            dt = pre_t
        m_this = replay(base, dt)
        if git:
            def accept(ops):
                return path_union(base, m_this, replay(base, ops)) is not None
        else:
            def accept(ops):
                return id_disjoint(base, dt, ops)
        mo_ = replay(base, pre_o)
        do = pre_o + draw_script(
            draw, mo_, tm.IdSource("o"), kw, 0 if pre_o else 1,
            3 if pre_o else 5, accept=(lambda ops: accept(pre_o + ops)),
            git=git, uniq=uniq)
    if fam == "other=base":
        mode = draw(st.sampled_from(["direct", "direct", "empty-commit",
                                     "pointless"]))
    else:
        mode = draw(st.sampled_from(["branch", "branch", "merger",
                                     "merger-explicit-base"]))
    criss = (mode not in ("direct", "pointless", "merger-explicit-base")
             and draw(st.integers(0, 19 if git else 3)) == 0)
    if da:
        criss = True
        mode = ("empty-commit" if fam == "other=base" else
                draw(st.sampled_from(["branch", "merger"])))
    dirty = 0
    if mt == "merge3" and fam != "this=base" and dt and \
            draw(st.integers(0, 3)) == 0:
        dirty = draw(st.integers(1, len(dt)))
        # never split a kind change (delete + re-add) across the commit
        cut = len(dt) - dirty
        if cut > 0 and dt[cut][0] == "add" and dt[cut - 1][0] == "delete" \
                and dt[cut - 1][1] == dt[cut][1]:
            dirty += 1
    return {"fmt": fmt, "mtype": mt, "family": fam, "base": root_ops,
            "dt": dt, "do": do, "mode": mode, "criss": criss, "dirty": dirty,
            "criss_delta": da}


def kinds(tier):
    return [
        Kind("bzr-merge3", run, strategy=gen_case("2a", ("merge3",)),
             examples={"quick": 450, "thorough": 8000}),
        Kind("bzr-weave-lca", run, strategy=gen_case("2a", ("weave", "lca")),
             examples={"quick": 300, "thorough": 8000}),
        Kind("git-merge3", run, strategy=gen_case("git", ("merge3",)),
             examples={"quick": 350, "thorough": 6000}),
    ]
