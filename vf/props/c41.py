"""C41 - testaments are deterministic and sensitive to every attested field."""

import copy
import json
import zlib

from hypothesis import strategies as st

from vf.api import Kind, check, ok, trivial
from vf.lib import bz, graphmodel as gm, history, treemodel as tm

PROPERTY = "C41"
LEVEL = "exploration"
TECHNIQUE = ("metamorphic testing over Hypothesis-generated revisions: the same "
             "revision spec stored in 2a, pack-0.92 and 1.9-rich-root, re-packed "
             "and re-fetched in generated orders must give identical testaments; "
             "a single-field perturbation of the spec must change every "
             "testament class that attests the field")
RULE = ("history_spec (files, directories, symlinks, exec bits, odd names, "
        "merges, metadata) built through real working trees; the last revision "
        "is the subject; one generated single-field perturbation (file content "
        "/ path / exec bit, symlink target, message line, committer, timestamp, "
        "timezone, parent list, revision property, added / deleted entry, "
        "letter case of a name, blanks in message and committer, last message "
        "line, second line of a property value, a replaced ghost parent, the "
        "root's file id, '\\' against '/' in a name and in a link target), "
        "chosen by a hash of the spec among the kinds that apply, so that "
        "every kind gets the same share. "
        "Non-trivial: the subject tree has >= 3 entries of >= 2 kinds. Distinct "
        "by case hash.")
ASSUMPTIONS = [
    "messages and property values are generated in the line-canonical form the "
    "testament text format can represent (it renders them with splitlines(), so "
    "'a' and 'a\\n' attest identically by design of the format)",
    "StrictTestament3 (which adds the root entry with its last-changed "
    "revision) is only compared between formats with the same root model",
    "the branch-nick revision property is supplied explicitly",
    "the format documents integer timestamps and parents in lexicographical "
    "order: sub-second timestamp changes and a mere reordering of parents are "
    "not generated as perturbations",
    "the tree root (file id) is attested by StrictTestament3 only; the "
    "perturbed root id is set through the builder's own set_root_id call",
]
LEVEL_TEXT = ("Sampled metamorphic exploration: determinism across formats / "
              "packing / fetch order and sensitivity to each attested field are "
              "checked on every generated revision for all three testament "
              "classes.")
LEVEL_NOTE = ("Trees bounded by the generator (depth 3, ~10 entries); formats "
              "2a, pack-0.92, 1.9-rich-root; exec bit and last-changed revision "
              "are attested only by the strict classes, the root only by v3.")
REGISTERED = True
NONTRIVIAL_FLOOR = {"quick": 30, "thorough": 300}

CLASSES = ("Testament", "StrictTestament", "StrictTestament3")
ALL = set(CLASSES)
STRICT = {"StrictTestament", "StrictTestament3"}


def testaments(repo, rev_id):
    from breezy.bzr import testament as T
    out = {}
    with repo.lock_read():
        for name in CLASSES:
            t = getattr(T, name).from_revision(repo, rev_id)
            out[name] = (t.as_text().decode("utf-8"),
                         t.as_short_text().decode("utf-8"))
    return out


def perturb(spec, pert):
    """-> (spec2, classes that must change)."""
    s2 = copy.deepcopy(spec)
    last = s2["revs"][-1]
    m = history.models_of(spec)[last["id"]]
    k = pert["kind"]
    pick = pert["pick"]
    files = sorted(f for f, e in m.items() if e["kind"] == "file")
    links = sorted(f for f, e in m.items() if e["kind"] == "symlink")
    nonroot = sorted(f for f in m if f != tm.ROOT_ID)
    if k == "content" and files:
        f = files[pick % len(files)]
        last["ops"].append(["modify", f, m[f]["content"] + "perturbed\n"])
        return s2, ALL
    if k == "exec" and files:
        f = files[pick % len(files)]
        last["ops"].append(["chmod", f, not m[f]["exec"]])
        return s2, STRICT
    if k == "path" and nonroot:
        f = nonroot[pick % len(nonroot)]
        last["ops"].append(["rename", f, m[f]["parent"], "zz-renamed"])
        return s2, ALL
    if k == "target" and links:
        f = links[pick % len(links)]
        last["ops"].append(["retarget", f, m[f]["content"] + "x"])
        return s2, ALL
    if k == "delete" and nonroot:
        last["ops"].append(["delete", nonroot[pick % len(nonroot)]])
        return s2, ALL
    if k == "add":
        last["ops"].append(["add", "pert-id", tm.ROOT_ID, "zz-added", "file",
                            "", False])
        return s2, ALL
    if k == "message":
        last["msg"] = last["msg"] + "\nextra line"
        return s2, ALL
    if k == "message-line":
        last["msg"] = "changed " + last["msg"]
        return s2, ALL
    if k == "message-trailing-blank":
        # white space inside a line is part of the attested text
        lines = last["msg"].split("\n")
        lines[pick % len(lines)] += " \t"[pick % 2]
        last["msg"] = "\n".join(lines)
        return s2, ALL
    if k == "message-inner-blanks":
        last["msg"] = last["msg"].replace(" ", "  ") if " " in last["msg"] \
            else last["msg"] + "  x"
        return s2, ALL
    if k == "target-nfd":
        # the base spec carries an NFC target (see run); its NFD twin is a
        # different byte string and a different link
        for op in last["ops"]:
            if op[0] == "add" and op[1] == "nfc-id":
                op[5] = "café"
                return s2, ALL
        return None, None
    if k == "path-backslash":
        # the file named "zz-bs\q" next to the directory "zz-bs" becomes the
        # file "q" inside it: another path, another parent directory
        for op in last["ops"]:
            if op[0] == "add" and op[1] == "bs-file":
                op[2], op[3] = "bs-dir", "q"
                return s2, ALL
        return None, None
    if k == "target-backslash":
        for op in last["ops"]:
            if op[0] == "add" and op[1] == "bl-id":
                op[5] = "t/u"
                return s2, ALL
        return None, None
    if k == "path-case" and nonroot:
        f = nonroot[pick % len(nonroot)]
        name = m[f]["name"]
        new = name.swapcase() if name.swapcase() != name else name + "X"
        sibs = {e["name"] for x, e in m.items() if x != f and
                e["parent"] == m[f]["parent"]}
        if new in sibs:
            new = name + "-Case"
        last["ops"].append(["rename", f, m[f]["parent"], new])
        return s2, ALL
    if k == "root-id":
        return s2, {"StrictTestament3"}
    if k == "revprop-second-line":
        if last["props"].get("multi") != "one\ntwo":
            return None, None
        last["props"] = dict(last["props"], multi="one\ntwo changed")
        return s2, ALL
    if k == "parent-ghost-replaced":
        if "ghost-a" not in last.get("ghosts", []):
            return None, None
        last["ghosts"] = [x if x != "ghost-a" else "ghost-b"
                          for x in last["ghosts"]]
        return s2, ALL
    if k == "message-last-line":
        last["msg"] = last["msg"] + " changed"
        return s2, ALL
    if k == "committer-blank":
        last["committer"] = last["committer"].replace(" <", "  <")
        return s2, ALL
    if k == "committer":
        last["committer"] = "Per Turbed <p@turbed.example>"
        return s2, ALL
    if k == "timestamp":
        last["ts"] += 1
        return s2, ALL
    if k == "timezone":
        last["tz"] += 60
        return s2, ALL
    if k == "revprop-add":
        last["props"] = dict(last["props"], extra="value")
        return s2, ALL
    if k == "revprop-change":
        last["props"] = dict(last["props"], author="Some Body <s@b.example>")
        if last["props"] == spec["revs"][-1]["props"]:
            last["props"]["author"] = "Other Body <o@b.example>"
        return s2, ALL
    if k == "parents":
        g = history.graph_of(spec, ghosts=False)
        cur = list(last["parents"])
        if len(cur) > 1:
            last["parents"] = cur[:-1]
            return s2, ALL
        if cur:
            anc = gm.ancestry(g, cur[0])
            others = [r["id"] for r in spec["revs"][:-1] if r["id"] not in anc]
            if others:
                last["parents"] = cur + [others[pick % len(others)]]
                return s2, ALL
            # always applicable: a further (ghost) parent
            last["ghosts"] = list(last.get("ghosts", [])) + ["ghost-pert"]
            return s2, ALL
    return None, None


def prepare(spec, kind):
    """Give the subject revision what the perturbation kind needs."""
    if kind not in ("target-nfd", "path-backslash", "target-backslash",
                    "revprop-second-line", "parent-ghost-replaced",
                    "message-last-line"):
        return spec
    spec = copy.deepcopy(spec)
    last = spec["revs"][-1]
    if kind == "target-nfd":
        # a symlink with a non-ASCII (NFC) target
        last["ops"].append(["add", "nfc-id", tm.ROOT_ID, "zz-nfc-link",
                            "symlink", "café", False])
    elif kind == "path-backslash":
        # a directory and, next to it, a file whose *name* contains a backslash
        last["ops"].append(["add", "bs-dir", tm.ROOT_ID, "zz-bs", "directory",
                            None, False])
        last["ops"].append(["add", "bs-file", tm.ROOT_ID, "zz-bs\\q", "file",
                            "backslash\n", False])
    elif kind == "target-backslash":
        last["ops"].append(["add", "bl-id", tm.ROOT_ID, "zz-bs-link",
                            "symlink", "t\\u", False])
    elif kind == "revprop-second-line":
        last["props"] = dict(last["props"], multi="one\ntwo")
    elif kind == "parent-ghost-replaced":
        last["ghosts"] = list(last.get("ghosts", [])) + ["ghost-a"]
    elif kind == "message-last-line":
        last["msg"] = last["msg"] + "\nlast line"
    return spec


def build_with_root_id(spec, path, fmt, root_id):
    """history.build_wt with another file id for the tree root (the builder
    addresses entries by path, so only the id of the root entry differs)."""
    orig = bz.init_tree

    def init_tree(p, format="2a"):
        wt = orig(p, format)
        real = wt.set_root_id
        wt.set_root_id = lambda _fid: real(root_id)
        return wt
    bz.init_tree = init_tree
    try:
        return history.build_wt(spec, path, fmt, tags=False)
    finally:
        bz.init_tree = orig


def short_text_of(name, rid, text):
    """The documented short form: header, revision id, SHA-1 of the text."""
    import hashlib
    from breezy.bzr import testament as T
    return "%srevision-id: %s\nsha1: %s\n" % (
        getattr(T, name).short_header, rid,
        hashlib.sha1(text.encode("utf-8")).hexdigest())


def run(case, env):
    from breezy import controldir
    from breezy.bzr import testament as T
    spec = prepare(case["spec"], case["pert"]["kind"])
    rid = spec["revs"][-1]["id"]
    d = env.newdir()
    built = {}
    for fmt in ("2a", "pack-0.92", "1.9-rich-root"):
        wt, models, idmap = history.build_wt(spec, "%s/%s" % (d, fmt), fmt,
                                             tags=False)
        built[fmt] = wt.branch.repository
    t = {fmt: testaments(repo, bz.enc(rid)) for fmt, repo in built.items()}
    # the short form is the digest of the long form; a testament made from the
    # revision tree is the one made from the revision
    for name in CLASSES:
        text, short = t["2a"][name]
        check(short == short_text_of(name, rid, text),
              "C41/%s-short-text-is-not-the-digest-of-the-text" % name,
              [short, text])
    repo = built["2a"]
    with repo.lock_read():
        tree = repo.revision_tree(bz.enc(rid))
        for name in CLASSES:
            tt = getattr(T, name).from_revision_tree(tree)
            check((tt.as_text().decode("utf-8"),
                   tt.as_short_text().decode("utf-8")) == t["2a"][name],
                  "C41/%s-from-revision-tree-differs" % name, None)
    # determinism across formats
    for name in ("Testament", "StrictTestament"):
        for fmt in ("pack-0.92", "1.9-rich-root"):
            check(t[fmt][name] == t["2a"][name],
                  "C41/%s-differs-between-2a-and-%s" % (name, fmt),
                  [t["2a"][name][0], t[fmt][name][0]])
    check(t["1.9-rich-root"]["StrictTestament3"] == t["2a"]["StrictTestament3"],
          "C41/StrictTestament3-differs-between-rich-root-formats",
          [t["2a"]["StrictTestament3"][0],
           t["1.9-rich-root"]["StrictTestament3"][0]])
    # ... across storage order: fetch into a fresh repository in a generated
    # order, then pack
    g = history.graph_of(spec, ghosts=False)
    order = [r["id"] for r in spec["revs"]]
    rot = case["rot"] % len(order)
    order = order[rot:][::-1] + order[:rot]
    for fmt in ("2a", "pack-0.92"):
        dst = bz.init_repo("%s/refetch-%s" % (d, fmt), fmt)
        for r in order:
            dst.fetch(built[fmt], revision_id=bz.enc(r))
        check(testaments(dst, bz.enc(rid)) == t[fmt],
              "C41/testament-depends-on-fetch-order", [fmt, order])
        dst.pack()
        check(testaments(dst, bz.enc(rid)) == t[fmt],
              "C41/testament-changes-after-pack", [fmt])
    built["2a"].pack()
    check(testaments(built["2a"], bz.enc(rid)) == t["2a"],
          "C41/testament-changes-after-pack", ["2a in place"])
    # sensitivity
    spec2, must = perturb(spec, case["pert"])
    m = history.models_of(spec)[rid]
    kinds = {e["kind"] for f, e in m.items() if f != tm.ROOT_ID}
    label = "tree>=3-entries-2-kinds" if len(m) > 3 and len(kinds) >= 2 \
        else None
    if spec2 is None:
        return ok(label) if label else trivial()
    pk = case["pert"]["kind"]
    if pk == "root-id":
        wt2, _m, _i = build_with_root_id(spec2, d + "/pert", "2a",
                                         b"another-root-id")
    else:
        wt2, _m, _i = history.build_wt(spec2, d + "/pert", "2a", tags=False)
    t2 = testaments(wt2.branch.repository, bz.enc(rid))
    same = [name for name in CLASSES if name in must and (
        t2[name][0] == t["2a"][name][0] or t2[name][1] == t["2a"][name][1])]
    if pk in COLLISIONS:
        # open findings: "\" in a name / a link target is written as "/"
        check(not same, COLLISIONS[pk], [same, t["2a"]["StrictTestament3"][0]])
    for name in same:
        check(False, "C41/%s-insensitive-to-%s" % (name, pk),
              [case["pert"], t["2a"][name][0]])
    return ok((label + "+" if label else "") + "pert:" + pk)


COLLISIONS = {
    "path-backslash": "C41/backslash-in-a-name-attested-as-path-separator",
    "target-backslash": "C41/backslash-in-a-link-target-attested-as-slash",
}


PERTS = ["content", "exec", "path", "target", "delete", "add", "message",
         "message-line", "committer", "timestamp", "timezone", "revprop-add",
         "revprop-change", "parents", "message-trailing-blank",
         "message-inner-blanks", "target-nfd", "path-case", "root-id",
         "revprop-second-line", "parent-ghost-replaced", "message-last-line",
         "committer-blank", "path-backslash", "target-backslash"]


@st.composite
def cases(draw, n_max=5):
    spec = draw(history.history_spec(
        n_min=2, n_max=n_max, merges=True, ghosts=False, symlinks=True,
        execs=True, odd_names=True, meta=True, ops_max=3, base_max=6))
    # line-canonical messages only (see ASSUMPTIONS)
    for r in spec["revs"]:
        r["msg"] = "\n".join(ln.rstrip() for ln in r["msg"].split("\n")
                             if ln.strip()) or "m"
    # The perturbation is a function of the drawn spec (a hash picks among
    # the kinds that apply to the subject tree): every kind gets the same
    # share of the budget, which sampled_from() does not give.
    m = history.models_of(spec)[spec["revs"][-1]["id"]]
    have = {e["kind"] for f, e in m.items() if f != tm.ROOT_ID}
    usable = [k for k in PERTS if not (
        (k in ("content", "exec") and "file" not in have) or
        (k == "target" and "symlink" not in have) or
        (k in ("path", "delete", "path-case") and not have))]
    h = zlib.crc32(json.dumps(spec, sort_keys=True).encode("utf-8"))
    return {"spec": spec,
            "pert": {"kind": usable[h % len(usable)], "pick": (h >> 10) % 8},
            "rot": (h >> 16) % 6}


def kinds(tier):
    return [
        Kind("revision", run, strategy=cases(n_max=4 if tier == "quick" else 6),
             examples={"quick": 480, "thorough": 6000}),
    ]
