"""C36 - git identifier mappings round-trip.

file id escaping, path <-> generated file id, git SHA <-> revision id, branch /
tag name <-> ref name, git URL (+ branch / ref) <-> breezy URL, and the parent
location of a local git branch: converting there and back returns the original
value (an equivalent URL for the URL forms)."""

import itertools
import os
import urllib.parse

from hypothesis import strategies as st

from vf.api import Kind, check, ok, rejected, trivial, violation, b2s, s2b

PROPERTY = "C36"
LEVEL = "exploration"
TECHNIQUE = ("exhaustive enumeration of short byte strings over the escape "
             "alphabet + Hypothesis grammars for names, SHAs, URLs and parent "
             "locations; round-trip oracle with expected values computed by "
             "the harness' own URL parser")
RULE = ("enumerated: every byte string of length <= 6 (thorough: 7) over {_, "
        "space, FF, s, c, a, 0xff, /} through escape/unescape and generate/"
        "parse_file_id; generated: byte strings / paths (non-UTF-8 included), "
        "40-hex SHAs (the all-zero SHA as its own class), branch and tag names "
        "(unicode, '/', '%', space), git URLs over {git, http(s), ftp, ssh, "
        "git+ssh, user@host:path} x port x '~'/%-escaped paths x branch in "
        "{none, '', simple, with / space % , = unicode} x ref in {none, HEAD, "
        "refs/heads/x, refs/tags/x, other refs/...}, and for a real local git "
        "branch (default or colocated, valid ref names) set_parent(url); "
        "reopen; get_parent(). Non-trivial: the value contains >= 1 character "
        "the mapping must escape / translate; distinct by construction "
        "(enumeration) or by case hash.")
ASSUMPTIONS = [
    "urllib.parse (harness side) is the reference for splitting and "
    "unquoting URLs",
    "the default mapping BzrGitMappingv1 and the mapping registry are the "
    "revision-id mappings under test",
    "URL-shaped git locations are already valid URLs (no literal ',' in the "
    "path, no password); scp-style locations are [user@]host:path",
    "branch names beginning with 'refs/' are full ref names by documented "
    "convention and are not part of the branch-name round trip",
]
NONTRIVIAL_FLOOR = {"quick": 2000, "thorough": 20000}

ZERO = "0" * 40

# ------------------------------------------------------------------ file ids

ESC_ALPHABET = [b"_", b" ", b"\x0c", b"s", b"c", b"a", b"\xff", b"/"]


def _check_fileid(x):
    """x: bytes.  Returns True if x contains a character needing escape."""
    from breezy.git import mapping as M
    mp = M.default_mapping
    e = M.escape_file_id(x)
    check(isinstance(e, bytes), "C36/escape_file_id-not-bytes", [repr(x)])
    check(b" " not in e and b"\x0c" not in e,
          "C36/escape_file_id-leaves-whitespace", [repr(x), repr(e)])
    u = M.unescape_file_id(e)
    check(u == x, "C36/file-id-escape-not-inverse", [repr(x), repr(e), repr(u)])
    # path <-> file id, the path given as bytes and as str
    as_str = x.decode("utf-8", "surrogateescape")
    fid_b = mp.generate_file_id(x)
    fid_s = mp.generate_file_id(as_str)
    check(fid_b == fid_s, "C36/generate_file_id-bytes-vs-str-differ",
          [repr(x), repr(fid_b), repr(fid_s)])
    back = mp.parse_file_id(fid_b)
    check(back == as_str, "C36/path-file-id-not-inverse",
          [repr(x), repr(fid_b), repr(back)])
    check(back.encode("utf-8", "surrogateescape") == x,
          "C36/path-file-id-bytes-not-inverse", [repr(x), repr(fid_b)])
    return any(c in x for c in (b"_", b" ", b"\x0c"))


def run_fileid_block(case, env):
    n = 0
    nt = 0
    first = ESC_ALPHABET[case["first"]]
    L = case["len"]
    if L == 0:
        _check_fileid(b"")
        return ok("enumerated-escape-strings", n=1, nt=0)
    for rest in itertools.product(ESC_ALPHABET, repeat=L - 1):
        x = first + b"".join(rest)
        n += 1
        if _check_fileid(x):
            nt += 1
    return ok("enumerated-escape-strings", n=n, nt=nt)


def enum_fileid(tier):
    top = 6 if tier == "quick" else 7
    yield {"len": 0, "first": 0}
    for L in range(1, top + 1):
        for i in range(len(ESC_ALPHABET)):
            yield {"len": L, "first": i}


def run_fileid(case, env):
    x = s2b(case["x"])
    nt = _check_fileid(x)
    if not nt:
        return trivial()
    try:
        x.decode("utf-8")
    except UnicodeDecodeError:
        return ok("escape+non-utf8")
    return ok("escape")


_fid_bytes = st.lists(
    st.one_of(st.sampled_from([b"_", b" ", b"\x0c", b"__", b"_s", b"_c", b"/",
                               b"%", b"s", b"c", b"\xc3\xa9", b"\xff", b"\xe9",
                               b"\xf0\x9d\x84\x9e", b"\xed\xa0\x80", b"git:",
                               b"TREE_ROOT", b"."]),
              st.binary(min_size=1, max_size=2)),
    min_size=0, max_size=10).map(b"".join)

gen_fileid = _fid_bytes.map(lambda b: {"x": b2s(b)})


# ------------------------------------------------------------------ shas

def run_sha(case, env):
    from breezy import errors
    from breezy.git import mapping as M
    from breezy.revision import NULL_REVISION
    sha = case["sha"].encode("ascii")
    for mp in (M.BzrGitMappingv1(), M.BzrGitMappingExperimental()):
        revid = mp.revision_id_foreign_to_bzr(sha)
        if case["sha"] == ZERO:
            # reserved: the zero SHA stands for null:, through the registry
            check(revid == NULL_REVISION, "C36/zero-sha-not-null-revision",
                  [revid])
            got, gmp = M.mapping_registry.revision_id_bzr_to_foreign(revid)
            check(got == sha, "C36/null-revision-not-zero-sha", [got])
            continue
        check(revid == mp.revision_id_foreign_to_bzr(sha),
              "C36/revid-unstable", [revid])
        got, gmp = mp.revision_id_bzr_to_foreign(revid)
        check(got == sha, "C36/sha-revid-not-inverse", [sha, revid, got])
        check(gmp == mp, "C36/sha-revid-mapping-differs", [repr(gmp)])
        got, gmp = M.mapping_registry.parse_revision_id(revid)
        check(got == sha and gmp == mp,
              "C36/sha-revid-not-inverse-through-registry",
              [sha, revid, got, repr(gmp)])
        # a revision id of the other mapping is refused, not misread
        other = (M.BzrGitMappingExperimental if type(mp) is M.BzrGitMappingv1
                 else M.BzrGitMappingv1)
        try:
            r = other.revision_id_bzr_to_foreign(revid)
        except errors.InvalidRevisionId:
            pass
        else:
            return violation("C36/revid-of-other-mapping-accepted",
                             [revid, repr(r)])
    return ok("zero-sha" if case["sha"] == ZERO else "sha")


gen_sha = st.one_of(
    st.text(alphabet="0123456789abcdef", min_size=40, max_size=40),
    st.text(alphabet="0f", min_size=40, max_size=40),
    st.just(ZERO)).map(lambda s: {"sha": s})


# ------------------------------------------------------------------ refs

def _needs(name):
    return name == "" or any(not (c.isascii() and (c.isalnum() or c in "._-"))
                             for c in name)


def run_ref(case, env):
    from breezy.git import refs
    n = case["name"]
    # tag names
    tref = refs.tag_name_to_ref(n)
    check(isinstance(tref, bytes) and tref.startswith(b"refs/tags/"),
          "C36/tag-ref-not-under-refs-tags", [n, repr(tref)])
    check(refs.ref_to_tag_name(tref) == n, "C36/tag-name-ref-not-inverse",
          [n, repr(tref), refs.ref_to_tag_name(tref)])
    # a tag ref is not a branch ref (and the other way round)
    for fn, r, sig in ((refs.ref_to_branch_name, tref,
                        "C36/tag-ref-mapped-to-branch-name"),):
        try:
            got = fn(r)
        except ValueError:
            pass
        else:
            return violation(sig, [n, repr(r), got])
    if n.startswith("refs/"):
        # documented: such a name already is a ref
        check(refs.branch_name_to_ref(n) == n.encode("utf-8"),
              "C36/refs-prefixed-branch-name-not-passed-through", [n])
        return trivial()
    bref = refs.branch_name_to_ref(n)
    check(isinstance(bref, bytes), "C36/branch-ref-not-bytes", [n])
    if n == "":
        check(bref == b"HEAD", "C36/empty-branch-name-not-HEAD", [repr(bref)])
    else:
        check(bref.startswith(b"refs/heads/"),
              "C36/branch-ref-not-under-refs-heads", [n, repr(bref)])
        try:
            got = refs.ref_to_tag_name(bref)
        except ValueError:
            pass
        else:
            return violation("C36/branch-ref-mapped-to-tag-name",
                             [n, repr(bref), got])
    back = refs.ref_to_branch_name(bref)
    check(back == n, "C36/branch-name-ref-not-inverse", [n, repr(bref), back])
    # and from the ref side
    check(refs.branch_name_to_ref(back) == bref,
          "C36/ref-branch-name-not-inverse", [repr(bref), back])
    if not _needs(n):
        return trivial()
    if n == "":
        return ok("HEAD")
    return ok("non-ascii-name" if not n.isascii() else "punctuated-name")


_NAME_ALPHA = "abxyz019/ _-.%,=+@:~^éÅλ\U0001d11e"
_name_text = st.one_of(
    st.text(alphabet=_NAME_ALPHA, min_size=0, max_size=10),
    st.tuples(st.sampled_from(["refs/", "refs/heads/", "refs/tags/", "heads/",
                               "tags/", "HEAD", "ref"]),
              st.text(alphabet=_NAME_ALPHA, min_size=0, max_size=5)
              ).map("".join))
gen_ref = _name_text.map(lambda n: {"name": n})


# ------------------------------------------------------------------ urls

def _split_params(url):
    """Own reader of ',key=value' segment parameters on the last segment."""
    head, sep, last = url.rpartition("/")
    parts = last.split(",")
    params = {}
    for p in parts[1:]:
        k, eq, v = p.partition("=")
        check(eq == "=", "C36/malformed-segment-parameter", [url, p])
        params[k] = urllib.parse.unquote(v, errors="strict")
    return head + sep + parts[0], params


def _canon(url):
    """(scheme, user, host, port, unquoted path bytes) of a URL string."""
    sp = urllib.parse.urlsplit(url)
    netloc = sp.netloc
    user = None
    if "@" in netloc:
        user, netloc = netloc.rsplit("@", 1)
        user = urllib.parse.unquote(user)
    host, colon, port = netloc.partition(":")
    path = urllib.parse.unquote_to_bytes(sp.path)
    return [sp.scheme, user, urllib.parse.unquote(host),
            int(port) if port else None, b2s(path), sp.query]


def _expected_target(case):
    """What the git location denotes, after the documented normalisation
    (ssh -> git+ssh; scp-style -> git+ssh://[user@]host/path)."""
    loc = case["loc"]
    if loc["form"] == "url":
        scheme = {"ssh": "git+ssh"}.get(loc["scheme"], loc["scheme"])
        return [scheme, loc["user"], loc["host"], loc["port"],
                b2s(urllib.parse.unquote_to_bytes(loc["path"])), ""]
    path = loc["path"].encode("utf-8")
    if not path.startswith(b"/"):
        path = b"/" + path
    return ["git+ssh", loc["user"], loc["host"], None, b2s(path), ""]


def _location(loc):
    if loc["form"] == "url":
        s = loc["scheme"] + "://"
        if loc["user"] is not None:
            s += loc["user"] + "@"
        s += loc["host"]
        if loc["port"] is not None:
            s += ":%d" % loc["port"]
        return s + loc["path"]
    s = ""
    if loc["user"] is not None:
        s += loc["user"] + "@"
    return s + loc["host"] + ":" + loc["path"]


def _expected_selector(branch, ref):
    """-> (branch, ref) as they must come back (refs/heads/x <-> branch x,
    HEAD / '' = nothing)."""
    if ref is not None:
        if ref == "HEAD":
            return None, None
        if ref.startswith("refs/heads/"):
            return ref[len("refs/heads/"):] or None, None
        return None, ref
    if branch:
        return branch, None
    return None, None


def _norm_selector(branch, ref):
    if ref in (None, "", "HEAD"):
        ref = None
    if not branch:
        branch = None
    if ref is not None and ref.startswith("refs/heads/") and branch is None:
        branch, ref = ref[len("refs/heads/"):] or None, None
    return branch, ref


def _url_nontrivial(case):
    loc = case["loc"]
    vals = [case["branch"] or "", case["ref"] or ""]
    if any(_needs(v) and v not in ("", "HEAD") for v in vals):
        return True
    return "%" in loc["path"] or loc["form"] == "scp"


def run_url(case, env):
    from breezy.git.urls import bzr_url_to_git_url, git_url_to_bzr_url
    location = _location(case["loc"])
    branch = case["branch"]
    ref = None if case["ref"] is None else case["ref"].encode("utf-8")
    if branch is not None and ref is not None:
        try:
            r = git_url_to_bzr_url(location, branch=branch, ref=ref)
        except ValueError:
            return rejected("branch-and-ref-both-given")
        return violation("C36/branch-and-ref-both-accepted", [location, r])
    bu = git_url_to_bzr_url(location, branch=branch, ref=ref)
    check(isinstance(bu, str), "C36/bzr-url-not-str", [repr(bu)])
    tu, gb, gr = bzr_url_to_git_url(bu)
    want_b, want_r = _expected_selector(branch, case["ref"])
    got_b, got_r = _norm_selector(gb, gr)
    check(got_b == want_b, "C36/url-branch-not-inverse",
          [location, branch, case["ref"], bu, gb, gr])
    check(got_r == want_r, "C36/url-ref-not-inverse",
          [location, branch, case["ref"], bu, gb, gr])
    want_t = _expected_target(case)
    check(_canon(tu) == want_t, "C36/url-target-not-equivalent",
          [location, bu, tu, _canon(tu), want_t])
    # own reading of the breezy URL: parameters are where the harness'
    # splitter finds them too
    base, params = _split_params(bu)
    check(_canon(base) == want_t, "C36/bzr-url-base-not-equivalent",
          [location, bu, base])
    check(_norm_selector(params.get("branch"), params.get("ref")) ==
          (want_b, want_r), "C36/bzr-url-parameters-not-equivalent",
          [location, bu, params])
    check(set(params) <= {"branch", "ref"}, "C36/bzr-url-unknown-parameter",
          [bu, sorted(params)])
    # the breezy URL is a fixed point of going to git and back
    bu2 = git_url_to_bzr_url(tu, branch=gb,
                             ref=None if gr is None else gr.encode("utf-8"))
    check(bu2 == bu, "C36/bzr-git-bzr-url-not-stable", [bu, tu, gb, gr, bu2])
    if not _url_nontrivial(case):
        return trivial()
    lab = case["loc"]["form"]
    if case["ref"] is not None:
        lab += "+ref"
    elif branch:
        lab += "+branch"
    return ok(lab)


_SEG_URL = st.lists(st.sampled_from(
    ["a", "b", "repo", ".git", "~", "~u", "-", "_", ".", "%20", "%2C", "%25",
     "%C3%A9", "%7E", "%3D", "+", "=", "@", "x1"]), min_size=1, max_size=4
).map("".join)
_SEG_SCP = st.text(alphabet="abrepo.git~-_ %,=+éλ", min_size=1, max_size=6)
_HOST = st.sampled_from(["h", "example.com", "git.example.org", "10.0.0.1",
                         "localhost", "xn--nxasmq6b.example", "EXAMPLE.com"])
_USER = st.sampled_from([None, None, "git", "u", "user.name", "u-1"])


@st.composite
def gen_loc(draw):
    if draw(st.sampled_from([True, False, False])):
        segs = draw(st.lists(_SEG_SCP, min_size=1, max_size=3))
        path = "/".join(segs)
        lead = draw(st.sampled_from(["", "", "/", "~/"]))
        extra = ""
        if draw(st.sampled_from([False] * 9 + [True])):
            extra = draw(st.sampled_from([":x", "@y"]))
        return {"form": "scp", "user": draw(_USER), "host": draw(_HOST),
                "path": lead + path + extra}
    scheme = draw(st.sampled_from(["git", "https", "http", "ssh", "git+ssh",
                                   "ftp"]))
    user = draw(_USER) if scheme in ("ssh", "git+ssh", "https", "ftp") \
        else None
    port = draw(st.sampled_from([None, None, 22, 2222, 8080, 9418]))
    segs = draw(st.lists(_SEG_URL, min_size=1, max_size=3))
    path = "/" + "/".join(segs) + draw(st.sampled_from(["", "", ".git", "/"]))
    return {"form": "url", "scheme": scheme, "user": user,
            "host": draw(_HOST), "port": port, "path": path}


_BRANCH = st.one_of(
    st.sampled_from(["", "main", "master", "feature/one", "a b", "50%", "a,b",
                     "k=v", "é", "rél/\U0001d11e", "x%2Fy", "HEAD"]),
    st.text(alphabet="ab/ %,=+éλ-_.", min_size=1, max_size=8).filter(
        lambda s: not s.startswith("refs/")))
_REFNAME = st.one_of(
    st.sampled_from(["x", "v1.0", "a/b", "v 1", "1%", "t,u", "é", "k=v"]),
    st.text(alphabet="abv01/ %,=éλ-_.", min_size=1, max_size=6))
_REF = st.one_of(
    st.just("HEAD"),
    st.tuples(st.sampled_from(["refs/heads/", "refs/heads/", "refs/tags/",
                               "refs/tags/", "refs/remotes/origin/",
                               "refs/pull/", "refs/notes/", "refs/"]),
              _REFNAME).map("".join))


@st.composite
def gen_url(draw):
    which = draw(st.sampled_from(list(range(21))))
    branch = ref = None
    if which <= 3:
        pass
    elif which <= 11:
        branch = draw(_BRANCH)
    elif which <= 19:
        ref = draw(_REF)
    else:
        branch = draw(_BRANCH)
        ref = draw(_REF)
    return {"loc": draw(gen_loc()), "branch": branch, "ref": ref}


# ------------------------------------------------------------------ parent

def _bzr_url(target, branch, ref):
    if branch is not None:
        return target + ",branch=" + urllib.parse.quote(branch, safe="")
    if ref is not None:
        return target + ",ref=" + urllib.parse.quote(ref, safe="")
    return target


def run_parent(case, env):
    from breezy import controldir, urlutils
    from breezy import branch as _mod_branch
    root = env.newdir("c36")
    here = os.path.join(root, case["dirname"])
    fmt = controldir.format_registry.make_controldir("git")
    wt = controldir.ControlDir.create_standalone_workingtree(here, format=fmt)
    name = case["name"]
    if name is None:
        br = wt.branch
    else:
        with open(os.path.join(here, "f"), "w") as f:
            f.write("x")
        wt.add(["f"])
        rev = wt.commit("one")
        br = wt.controldir.create_branch(name=name)
        br.generate_revision_history(rev)
    tgt = case["target"]
    local = tgt["form"] == "local"
    if local:
        target = urlutils.local_path_to_url(
            os.path.join(root, *tgt["path"]))
        # ':' is a legal path character of a URL; keep it as the user would
        # type it
        target = "file://" + target[len("file://"):].replace("%3A", ":")
    else:
        target = _bzr_target(tgt)
    url = _bzr_url(target, case["branch"], case["ref"])
    if case.get("remote"):
        # the branch already follows a differently named remote, and an
        # unrelated remote 'origin' exists (git config written by the harness
        # with dulwich, as `git remote add` would have)
        bname = (name if name is not None else br.name).encode("utf-8")
        cfg = br.repository._git.get_config()
        cfg.set((b"remote", b"origin"), b"url",
                b"https://unrelated.example.com/other.git")
        cfg.set((b"branch", bname), b"remote",
                case["remote"].encode("utf-8"))
        br.repository._write_git_config(cfg)
        br = (wt.controldir.open_branch(name=name) if name is not None
              else _mod_branch.Branch.open(here))
    if case["rounds"] == 2:
        # an earlier, different parent must not shine through
        br.set_parent(case["first"])
    br.set_parent(url)
    # the object that wrote it reads it back too
    same = br.get_parent()
    cd2 = controldir.ControlDir.open(here)
    b2 = cd2.open_branch(name=name) if name is not None else cd2.open_branch()
    got = b2.get_parent()
    check(isinstance(got, str), "C36/get_parent-not-a-url",
          [url, repr(got)])
    check(same == got, "C36/get_parent-differs-on-the-writing-object",
          [url, same, got])
    base, params = _split_params(got)
    want_sel = _expected_selector(case["branch"], case["ref"])
    got_sel = _norm_selector(params.get("branch"), params.get("ref"))
    lab = ("local" if local else "remote") + (
        "+named-branch" if name is not None else "")
    if want_sel != (None, None):
        lab += "+selector"
    if local:
        if got.startswith("git+ssh://") and any(":" in p for p in tgt["path"]):
            return violation(
                "C36/parent-local-path-with-colon-read-as-scp-location",
                [url, got], label=lab)
        check(_canon(base.rstrip("/")) == _canon(target.rstrip("/")),
              "C36/parent-local-target-differs", [url, got, base, target])
        if got_sel != want_sel and got_sel == (None, None):
            return violation("C36/parent-local-url-loses-branch-or-ref",
                             [url, got], label=lab)
    else:
        check(_canon(base) == _canon(target),
              "C36/parent-remote-target-differs", [url, got, base, target])
    check(got_sel == want_sel, "C36/parent-branch-or-ref-differs",
          [url, got, list(got_sel), list(want_sel)])
    # the same location for the other branches of the repository is not
    # the property's business; the value read back must be stable
    check(b2.get_parent() == got, "C36/get_parent-unstable", [got])
    if want_sel == (None, None) and not local:
        return trivial()
    return ok(lab)


def _bzr_target(t):
    s = t["scheme"] + "://"
    if t["user"] is not None:
        s += t["user"] + "@"
    s += t["host"]
    if t["port"] is not None:
        s += ":%d" % t["port"]
    return s + t["path"]


_GITNAME_SEG = st.text(alphabet="abxyz01_-é", min_size=1, max_size=5)
_GITNAME = st.one_of(
    st.sampled_from(["origin", "master", "main", "feat/x", "HEADS"]),
    st.lists(_GITNAME_SEG, min_size=1, max_size=3).map("/".join)).filter(
        lambda n: n != "master" and not n.startswith("-"))
_DIRSEG = st.one_of(
    st.sampled_from(["other", "o ther", "é", "a,b", "x%y", "p=q", "a+b",
                     "~t"]),
    st.text(alphabet="abc019 ,%=é~+", min_size=1, max_size=5).filter(
        lambda s: s.strip(" ") == s and s not in (".", "..")))


@st.composite
def gen_parent(draw):
    name = draw(st.one_of(st.none(), st.none(), _GITNAME))
    if draw(st.sampled_from([True, False, False])):
        path = draw(st.lists(_DIRSEG, min_size=1, max_size=3))
        if draw(st.sampled_from([False] * 15 + [True])):
            path[-1] = path[-1] + ":" + draw(st.sampled_from(["b", "1"]))
        target = {"form": "local", "path": path}
    else:
        scheme = draw(st.sampled_from(["git", "https", "http", "git+ssh"]))
        segs = draw(st.lists(_SEG_URL, min_size=1, max_size=3))
        target = {"form": "remote", "scheme": scheme,
                  "user": draw(_USER) if scheme != "git" else None,
                  "host": draw(_HOST),
                  "port": draw(st.sampled_from([None, None, 2222])),
                  "path": "/" + "/".join(segs) + draw(
                      st.sampled_from(["", ".git"]))}
    which = draw(st.sampled_from(list(range(10))))
    branch = ref = None
    if which <= 0:
        pass
    elif which <= 5:
        branch = draw(_BRANCH.filter(lambda b: b != ""))
    else:
        ref = draw(_REF)
    rounds = draw(st.sampled_from([1, 1, 1, 2]))
    first = draw(st.sampled_from([
        "https://old.example.com/r.git,branch=stale",
        "git://old.example.com/r,ref=refs%2Ftags%2Fstale",
        "https://old.example.com/r.git"]))
    dirname = draw(st.sampled_from(["r", "r", "w t", "é", "a,b", "r%41"]))
    return {"remote": draw(st.sampled_from([None, None, None, "upstream",
                                            "up/stream"])),
            "name": name, "target": target, "branch": branch, "ref": ref,
            "rounds": rounds, "first": first, "dirname": dirname}


# ------------------------------------------------------------------ kinds

def kinds(tier):
    return [
        Kind("fileid-escape-enum", run_fileid_block, enumerate=enum_fileid,
             exhaustive=True, hash_cases=False),
        Kind("fileid-generated", run_fileid, strategy=gen_fileid,
             examples={"quick": 5000, "thorough": 300000}),
        Kind("sha-revid", run_sha, strategy=gen_sha,
             examples={"quick": 800, "thorough": 20000}),
        Kind("ref-names", run_ref, strategy=gen_ref,
             examples={"quick": 5000, "thorough": 300000}),
        Kind("git-urls", run_url, strategy=gen_url(),
             examples={"quick": 8000, "thorough": 400000}),
        Kind("parent-location", run_parent, strategy=gen_parent(),
             examples={"quick": 1600, "thorough": 40000}),
    ]


REGISTERED = True
LEVEL_TEXT = ("The escape functions are decided exhaustively for all strings up "
              "to length 6/7 over the escape alphabet; every other mapping is "
              "sampled from grammars that over-represent the characters each "
              "mapping translates, with the expected URL components computed by "
              "the harness independently. Round trips, sampled: exploration.")
LEVEL_NOTE = ("urllib.parse is the reference URL reader; URL inputs are valid "
              "URLs or scp-style locations; colocated branch names are valid "
              "git ref names; the Rust half of the URL conversion is exercised "
              "through the installed extension module.")
