"""C02 - per-file history and last-changed revisions are recorded correctly."""

import os

from hypothesis import strategies as st

from vf.api import Kind, check, ok, rejected, trivial
from vf.lib import bz
from vf.lib import c02_model as cm
from vf.lib import graphmodel as gm
from vf.lib import history as hist
from vf.lib import treemodel as tm

PROPERTY = "C02"
LEVEL = "exploration"
TECHNIQUE = ("Hypothesis-generated histories built through real working-tree "
             "commits and merges, compared with an independent reference "
             "model of last-changed revisions and per-file parents")
RULE = ("two generators on 2a, pack-0.92 and knit: (spec-dag) arbitrary revision DAGs "
        "of 3-14 revisions with up to 3 parents, ghost parents, symlinks, exec "
        "bits, kind-preserving edit scripts, adoption of a merged parent's "
        "file versions, echoes of a cousin's change, and a 'resurrection' "
        "suffix (file id dropped by one merge, kept through another parent), "
        "committed through "
        "WorkingTree.commit with set_parent_ids; (merge-script) 2-3 branches in "
        "a shared repository driven by late-bound steps: edit, twin (identical "
        "change on two branches), merge_from_branch of a tip or an older "
        "left-hand ancestor (criss-cross), conflicts kept or aborted, revert of "
        "some/all files after the merge, further edits before the commit, "
        "cherry-pick (merge of one revision range), pull, kind changes, "
        "octopus commits (two pending merges whose tips share a newer "
        "version of an entry; spec-dag appends the same shape with 3-4 "
        "parents). "
        "Non-trivial: the history contains a merge revision in which some file "
        "id has >= 2 per-file heads (fork), or whose single head comes from a "
        "merged parent (carried over, reverted, or changed after the merge), "
        "or an identical parallel change. Distinct by case hash (DAG + edit "
        "scripts).")
ASSUMPTIONS = [
    "per-file heads are the maximal candidate versions in the per-file graph "
    "(the relation Repository.check() verifies), not in the revision graph; "
    "the two differ only for file ids absent from an intermediate revision",
    "the revision DAG used by the model is the one the harness asked for "
    "(spec parents / the working tree's parent ids before commit)",
    "the committed tree content is what the harness put on disk (read back "
    "from disk before commit in merge-script; from the spec in spec-dag); a "
    "recorded entry that differs is reported as its own violation",
    "dirstate versioning data (file ids, names, parents) and vcsgraph/"
    "bzrformats storage are trusted base",
]
LEVEL_TEXT = ("Generated histories (merges up to 3 parents, criss-cross, ghost "
              "parents, reverted merges, identical parallel changes, kind/exec/"
              "rename-only changes, cherry-picks) are committed with the real "
              "commit builder; every revision's recorded last-changed revision, "
              "every text key and its ordered per-file parents are compared with "
              "an independent model, in the repository and again after a fetch "
              "into a fresh repository, and Repository.check() must be clean. "
              "A sample of the unbounded space of histories, not a proof.")
LEVEL_NOTE = ("Trusted: dirstate, vcsgraph heads, bzrformats storage; the model "
              "takes the committed tree from the harness' own bookkeeping and "
              "uses its own graph code.")
REGISTERED = True
NONTRIVIAL_FLOOR = {"quick": 150, "thorough": 3000}

FORMATS = ["2a", "2a", "pack-0.92", "pack-0.92", "knit"]


# --------------------------------------------------------------- spec-dag kind

_SAFE_TARGET = {"a": "qa", "b/c": "q/c"}


@st.composite
def spec_case(draw, tier="quick"):
    n_max = 9 if tier == "quick" else 14
    spec = draw(hist.history_spec(n_min=4, n_max=n_max, merges=True,
                                  ghosts=True, symlinks=True, execs=True,
                                  max_parents=3, ops_max=3, base_max=5))
    # post-process: adopt / echo ops (content + exec only, so every op drawn
    # for later revisions stays applicable)
    models = {}
    g = {}
    left_parents = {r["parents"][0] for r in spec["revs"] if r["parents"]}
    for rev in spec["revs"]:
        rid = rev["id"]
        # a symlink whose target resolves to itself ("a" -> "a", "b" -> "b/c")
        # makes WorkingTree.remove fail with ELOOP while building the history
        # (set-up, not this property): use targets that never resolve
        for op in rev["ops"]:
            if op[0] == "add" and op[4] == "symlink":
                op[5] = _SAFE_TARGET.get(op[5], op[5])
            elif op[0] == "retarget":
                op[2] = _SAFE_TARGET.get(op[2], op[2])
        g[rid] = tuple(rev["parents"])
        m = tm.clone(models[rev["parents"][0]]) if rev["parents"] \
            else tm.new_model()
        tm.apply_ops(m, rev["ops"])
        extra = []
        if len(rev["parents"]) > 1:
            # adopt the version of a merged parent for some files
            for p in rev["parents"][1:]:
                pm = models[p]
                cands = sorted(
                    f for f in m if f in pm and m[f]["kind"] == "file" and
                    pm[f]["kind"] == "file" and
                    (m[f]["content"], m[f]["exec"]) !=
                    (pm[f]["content"], pm[f]["exec"]))
                for f in cands:
                    if draw(st.integers(0, 2)) == 0:
                        continue
                    if m[f]["content"] != pm[f]["content"]:
                        extra.append(["modify", f, pm[f]["content"]])
                    if m[f]["exec"] != pm[f]["exec"]:
                        extra.append(["chmod", f, pm[f]["exec"]])
            if rid not in left_parents and draw(st.integers(0, 2)) == 0:
                # inside the merge commit move an entry to another directory
                # under its old name (only the parent directory changes); no
                # later revision's ops were drawn against this tree
                m2 = tm.apply_ops(tm.clone(m), extra)
                movable = sorted(f for f in m2 if f != tm.ROOT_ID)
                if movable:
                    f = draw(st.sampled_from(movable))
                    banned = set(tm.descendants(m2, f)) | {f}
                    dirs = [d for d in tm.dirs(m2) if d not in banned and
                            d != m2[f]["parent"] and
                            m2[f]["name"] not in tm.names_in(m2, d) and
                            tm.depth(m2, d) < 3]
                    if dirs:
                        extra.append(["rename", f, draw(st.sampled_from(dirs)),
                                      m2[f]["name"]])
        elif rev["parents"] and draw(st.integers(0, 3)) == 0:
            # echo: make the same content change a cousin made
            anc = gm.ancestry(g, rid)
            cousins = [r for r in models if r not in anc]
            if cousins:
                c = draw(st.sampled_from(sorted(cousins)))
                cmod = models[c]
                cands = sorted(
                    f for f in m if f in cmod and m[f]["kind"] == "file" and
                    cmod[f]["kind"] == "file" and
                    m[f]["content"] != cmod[f]["content"])
                if cands:
                    f = draw(st.sampled_from(cands))
                    extra.append(["modify", f, cmod[f]["content"]])
        if rev["parents"] and draw(st.integers(0, 1)) == 0:
            # touch one of the oldest files: parallel lines of development
            # then change the same file id (per-file forks)
            old = sorted(f for f in m if f in models["r0"] and
                         m[f]["kind"] == "file")[:2]
            if old:
                f = draw(st.sampled_from(old))
                c = draw(st.sampled_from(["same\n", "alpha\n", "beta\n"]))
                if draw(st.integers(0, 3)) == 0:
                    extra.append(["chmod", f, not m[f]["exec"]])
                else:
                    extra.append(["modify", f, c])
        tm.apply_ops(m, extra)
        rev["ops"] = rev["ops"] + extra
        models[rid] = m
    if draw(st.integers(0, 4)) == 0:
        _append_resurrection(draw, spec, models, g)
    if draw(st.integers(0, 2)) == 0:
        _append_octopus(draw, spec, models, g)
    return {"fmt": draw(st.sampled_from(FORMATS)), "spec": spec}


def _append_octopus(draw, spec, models, g):
    """Three-parent merge in which both merged tips carry the SAME version of
    some entries and that version is newer than the left-hand parent's: X
    changes entries of its left parent P; T1 and T2 are children of X; L is a
    sibling of X (child of P, nothing changed); M = merge(L, T1, T2) either
    keeps L's tree (new versions with the single per-file parent X) or
    replays X's edit (carried over, last-changed X)."""
    # (revisions appended by the resurrection suffix have no model here)
    cands = [r for r in spec["revs"] if r["parents"] and r["ops"] and
             r["id"] in models and r["parents"][0] in models]
    if not cands:
        return
    x = draw(st.sampled_from(cands))
    p = x["parents"][0]
    proto = spec["revs"][-1]

    def mk(parents, ops):
        i = len(spec["revs"])
        rid = "r%d" % i
        spec["revs"].append({
            "id": rid, "parents": parents, "ghosts": [],
            "ops": [list(o) for o in ops], "msg": "m%d" % i,
            "ts": bz.T0 + 100 * i, "tz": 0, "committer": proto["committer"],
            "props": {}})
        m = tm.clone(models[parents[0]])
        tm.apply_ops(m, ops)
        models[rid] = m
        g[rid] = tuple(parents)
        return rid
    left = mk([p], [])
    t1 = mk([x["id"]], [])
    t2 = mk([x["id"]], [])
    if draw(st.booleans()):
        # a fourth parent that also carries X's versions
        t3 = mk([x["id"]], [])
        tips = [t1, t2, t3]
    else:
        tips = [t1, t2]
    how = draw(st.sampled_from(["keep-left", "adopt", "adopt"]))
    mk([left] + tips, x["ops"] if how == "adopt" else [])


def _append_resurrection(draw, spec, models, g):
    """A file id dropped by one merge and kept through another parent: V2
    changes f after V1; M1 = merge(P, V2) keeps P's tree (no f); M2 =
    merge(V1, M1) keeps f and renames it; M3 = merge(V2, M2). In M3 the
    version of V2 is an ancestor of M2's by revision graph but not in the
    per-file graph (found by the thorough tier; see PerFileModel)."""
    cands = []
    for rev in spec["revs"]:
        if not rev["parents"]:
            continue
        v2, v1 = rev["id"], rev["parents"][0]
        touched = sorted({op[1] for op in rev["ops"]
                          if op[0] in ("modify", "rename", "chmod", "retarget")
                          and op[1] in models[v1] and op[1] in models[v2]})
        for f in touched:
            for p in sorted(gm.ancestry(g, v1)):
                if f not in models[p]:
                    cands.append((p, v1, v2, f))
    if not cands:
        return
    p, v1, v2, f = draw(st.sampled_from(cands))
    n = len(spec["revs"])
    proto = spec["revs"][-1]

    def mk(i, parents, ops):
        return {"id": "r%d" % i, "parents": parents, "ghosts": [], "ops": ops,
                "msg": "m%d" % i, "ts": bz.T0 + 100 * i, "tz": 0,
                "committer": proto["committer"], "props": {}}
    e1, e2 = models[v1][f], models[v2][f]
    ops = [["rename", f, e1["parent"], "zz"]]
    if e1["kind"] == "file" and e2["kind"] == "file" and \
            (e1["parent"], e1["name"]) == (e2["parent"], e2["name"]) and \
            draw(st.booleans()):
        # variant: M2 makes the very change V2 made (identical parallel
        # change); by revision graph M3 could then carry M2's version over
        ops = []
        if e1["content"] != e2["content"]:
            ops.append(["modify", f, e2["content"]])
        if e1["exec"] != e2["exec"]:
            ops.append(["chmod", f, e2["exec"]])
    spec["revs"].append(mk(n, [p, v2], []))
    spec["revs"].append(mk(n + 1, [v1, "r%d" % n], ops))
    # V2 first: V2 is an ancestor of M2, and set_parent_ids drops a
    # non-leftmost parent that is an ancestor of another parent
    spec["revs"].append(mk(n + 2, [v2, "r%d" % (n + 1)], []))


def run_spec(case, env):
    spec = case["spec"]
    fmt = case["fmt"]
    d = env.newdir("c02s")
    wt, _models, idmap = hist.build_wt(spec, os.path.join(d, "src"),
                                       format=fmt, tags=False)
    models = hist.models_of(spec)
    model = cm.PerFileModel()
    for rev in spec["revs"]:
        model.add(rev["id"], rev["parents"], rev.get("ghosts", []),
                  cm.keys_of_model(models[rev["id"]]))
    revmap = {r: r for r in model.ent}
    repo = wt.branch.repository
    cm.check_repository(repo, model, revmap, "", fmt=fmt)
    target = cm.fetch_copy(repo, os.path.join(d, "copy"), fmt)
    cm.check_repository(target, model, revmap, "after-fetch", fmt=fmt)
    label = cm.label_of(model.all_features())
    if label is None:
        return trivial()
    return ok("spec:" + label)


# ----------------------------------------------------------- merge-script kind

_line = st.sampled_from(tm.LINES + ["same\n", "x1\n", "x2\n"])


@st.composite
def _lop(draw, ctr):
    k = draw(st.sampled_from(["line", "line", "line", "mod", "chmod", "rename",
                              "add", "delete", "kind", "line", "move"]))
    idx = st.sampled_from([0, 0, 0, 1, 1, 2, 3, 4, 5, 6])
    if k == "line":
        return ["line", draw(idx), draw(st.integers(0, 8)), draw(_line)]
    if k == "mod":
        return ["mod", draw(idx), draw(st.sampled_from(
            ["same\n", "", "alpha\nbeta\n", "no newline"]))]
    if k == "chmod":
        return ["chmod", draw(idx)]
    if k == "rename":
        return ["rename", draw(idx), draw(st.integers(0, 3)),
                draw(st.sampled_from(["a", "b", "c", "n1", "n2"]))]
    if k == "delete":
        return ["delete", draw(idx)]
    if k == "move":
        # rename into another directory keeping the name
        return ["rename", draw(idx), draw(st.integers(0, 3)), None]
    if k == "kind":
        return ["kind", draw(idx)]
    ctr[0] += 1
    kind = draw(st.sampled_from(["file", "file", "directory", "symlink"]))
    content = None
    if kind == "file":
        content = draw(tm.text_strategy())
    elif kind == "symlink":
        content = draw(st.sampled_from(["qa", "nowhere"]))
    return ["add", "n%d-id" % ctr[0], draw(st.integers(0, 3)),
            draw(st.sampled_from(["a", "b", "c", "n1", "n2", "n3"])), kind,
            content, draw(st.booleans()) if kind == "file" else False]


@st.composite
def script_case(draw, tier="quick"):
    ids = tm.IdSource()
    m = tm.new_model()
    base = tm.draw_ops(draw, m, ids, n_min=2, n_max=5,
                       kinds=["add", "add", "add", "add_dir"], symlinks=True,
                       execs=True, odd_names=False)
    for op in base:
        if op[4] == "symlink":
            op[5] = _SAFE_TARGET.get(op[5], op[5])
    # at least two multi-line files so that both sides can change one file
    # without a text conflict
    for i in range(2):
        f = ids.next()
        op = ["add", f, tm.ROOT_ID, "t%d" % i, "file",
              "".join(tm.LINES), False]
        tm.apply_op(m, op)
        base.append(op)
    nbr = draw(st.sampled_from([2, 3, 3]))
    ctr = [0]
    n = draw(st.integers(4, 9 if tier == "quick" else 14))
    steps = []
    b = st.integers(0, nbr - 1)
    # approximate simulation of the DAG (assumes every commit / merge goes
    # through) so that merges are drawn only where they are not pointless
    g = {"n0": ()}
    tips = ["n0"] * nbr
    cnt = [0]

    def node(parents):
        cnt[0] += 1
        g["n%d" % cnt[0]] = tuple(parents)
        return "n%d" % cnt[0]

    def back_of(rev, k):
        for _ in range(k):
            if not g[rev]:
                break
            rev = g[rev][0]
        return rev

    for _ in range(n):
        k = draw(st.sampled_from(
            ["edit", "edit", "twin", "merge", "merge", "merge",
             "merge", "merge", "cherry", "pull"] +
            (["octo", "octo", "octo"] if nbr == 3 else [])))
        if k == "octo":
            # s1 changes entries (X); s2 takes X over (pull, or a merge when
            # it has diverged); both add something of their own; dst then
            # merges both tips in ONE commit (two pending merges)
            dst = draw(b)
            s1, s2 = [i for i in range(3) if i != dst]
            if draw(st.booleans()):
                s1, s2 = s2, s1
            steps.append(["edit", s1, draw(
                st.lists(_lop(ctr), min_size=1, max_size=2))])
            tips[s1] = node([tips[s1]])
            if tips[s2] in gm.ancestry(g, tips[s1]):
                steps.append(["pull", s2, s1])
                tips[s2] = tips[s1]
            else:
                steps.append(["merge", s2, s1, 0, "abort", None, []])
                tips[s2] = node([tips[s2], tips[s1]])
            for sx in (s1, s2):
                ctr[0] += 1
                steps.append(["edit", sx, [[
                    "add", "n%d-id" % ctr[0], 0, "o%d" % ctr[0], "file",
                    "octopus %d\n" % ctr[0], False]]])
                tips[sx] = node([tips[sx]])
            rv = draw(st.sampled_from(["none", "none", "some", "all"]))
            revert = None if rv == "none" else "all" if rv == "all" else \
                draw(st.lists(st.integers(0, 9), min_size=1, max_size=3))
            steps.append(["octo", dst, s1, s2, revert,
                          draw(st.lists(_lop(ctr), min_size=0, max_size=1))])
            tips[dst] = node([tips[dst], tips[s1], tips[s2]])
            continue
        if k in ("merge", "cherry", "pull", "twin"):
            dst = draw(b)
            src = draw(b)
            if src == dst:
                src = (src + 1) % nbr
        if k == "merge":
            back = draw(st.sampled_from([0, 0, 0, 1, 2]))
            to = back_of(tips[src], back)
            if to in gm.ancestry(g, tips[dst]):
                to = tips[src]
                back = 0
            if to in gm.ancestry(g, tips[dst]):
                k = "edit-src"
        elif k == "cherry":
            back = draw(st.sampled_from([0, 0, 1]))
            to = back_of(tips[src], back)
            if not g[to] or to in gm.ancestry(g, tips[dst]):
                k = "edit-src"
        elif k == "pull":
            if tips[dst] == tips[src] or \
                    tips[dst] not in gm.ancestry(g, tips[src]):
                k = "edit-src"
        if k in ("edit", "edit-src"):
            br = src if k == "edit-src" else draw(b)
            steps.append(["edit", br, draw(
                st.lists(_lop(ctr), min_size=1, max_size=3))])
            tips[br] = node([tips[br]])
        elif k == "twin":
            steps.append(["twin", dst, src, draw(
                st.lists(_lop(ctr), min_size=1, max_size=2))])
            tips[dst] = node([tips[dst]])
            tips[src] = node([tips[src]])
        elif k == "pull":
            steps.append(["pull", dst, src])
            tips[dst] = tips[src]
        elif k == "cherry":
            steps.append(["cherry", dst, src, back])
            tips[dst] = node([tips[dst]])
        else:
            rv = draw(st.sampled_from(["none", "none", "some", "some", "all"]))
            if rv == "none":
                revert = None
            elif rv == "all":
                revert = "all"
            else:
                revert = draw(st.lists(st.integers(0, 9), min_size=1,
                                       max_size=3))
            steps.append(["merge", dst, src, back,
                          draw(st.sampled_from(["keep", "keep", "abort"])),
                          revert,
                          draw(st.lists(_lop(ctr), min_size=0, max_size=2))
                          if draw(st.integers(0, 2)) == 0 else []])
            tips[dst] = node([tips[dst], to])
    return {"fmt": draw(st.sampled_from(FORMATS)), "nbr": nbr, "base": base,
            "steps": steps}


def run_script(case, env):
    d = env.newdir("c02m")
    sc = cm.Script(case, os.path.join(d, "shared"))
    os.makedirs(sc.root)
    model = sc.run()
    revmap = {r: r for r in model.ent}
    cm.check_repository(sc.repo, model, revmap, "", fmt=case["fmt"])
    target = cm.fetch_copy(sc.repo, os.path.join(d, "copy"), case["fmt"])
    cm.check_repository(target, model, revmap, "after-fetch",
                        fmt=case["fmt"])
    feats = model.all_features()
    label = cm.label_of(feats)
    if sc.setup_failure:
        return rejected("history set-up cut short: " + sc.setup_failure,
                        label=("script:" + label) if label else None)
    if label is None:
        return trivial()
    return ok("script:" + label)


def kinds(tier):
    return [
        Kind("spec-dag", run_spec, strategy=spec_case(tier),
             examples={"quick": 500, "thorough": 8000}),
        Kind("merge-script", run_script, strategy=script_case(tier),
             examples={"quick": 500, "thorough": 8000}),
    ]
