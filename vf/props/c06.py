"""C06 - aborted and suspended write groups have no visible effect until
committed; incomplete groups are refused without changing the repository."""

import os
import shutil

from hypothesis import strategies as st

from vf.api import Kind, check, ok, trivial, violation
from vf.lib import c06_wg as wg
from vf.lib.c04_crash import rid
from vf.seam import ft

PROPERTY = "C06"
LEVEL = "exploration"
TECHNIQUE = ("generated write-group programs over a known key universe; "
             "snapshot equality for abort / suspend / refusal, differential "
             "direct-vs-suspended commit, completeness model for acceptance; "
             "transport-fault enumeration over commit / suspend / abort")
RULE = ("A program = target format (2a, pack-0.92, 1.9; optionally stacked), a "
        "source history of 3-6 revisions of which 1-2 are already in the "
        "target, and a write group: record-stream insertions into revisions / "
        "inventories / texts / chk_bytes for a generated range of revisions "
        "with generated omissions (a whole store for a revision, single keys, "
        "knit deltas without their basis), add_revision / "
        "add_inventory_by_delta / add_signature_text calls, 0-3 suspend+resume "
        "points (fresh repository object each time, optional malformed "
        "tokens), ending in commit or abort. The fault kind enumerates an "
        "injected transport error at EVERY mutating operation of the final "
        "commit / suspend / abort of a program. Non-trivial: the group inserted "
        ">= 1 revision and was aborted or suspended at least once, or it "
        "misses something a new revision references. Distinct by program "
        "(case hash); fault cases per (program, position).")
ASSUMPTIONS = [
    "the key universe (texts / CHK pages introduced per revision) is read "
    "from the untouched source repository with the trusted-base CHK walker",
    "acceptance model: a new revision needs its inventory locally, and all "
    "CHK pages and texts that inventory introduces relative to the parent "
    "inventories present locally (fallback repositories do not count); cases "
    "the property text does not decide are accepted either way",
    "a commit that fails after pack-names was rewritten counts as committed "
    "(fault kind): the state must be exactly 'before' or 'before + group'",
]
LEVEL_TEXT = ("Write-group programs are sampled (Hypothesis); for each the "
              "abort / suspend / refusal snapshots, the differential against a "
              "direct commit into a twin and the completeness model are "
              "checked. For a subset every transport-fault position of the "
              "closing operation is enumerated.")
LEVEL_NOTE = ("Sampled programs over linear histories of <= 6 revisions; the "
              "completeness model is the harness's own reading of the property "
              "text and leaves undecided combinations unasserted.")
REGISTERED = True
NONTRIVIAL_FLOOR = {"quick": 120, "thorough": 2500}

F28 = "C06/knitpack-accepts-incomplete-write-group"
SHADOW = ("C06/chk-accepts-missing-text-referenced-by-unrelated-parent-"
          "inventory")
SIG_TEXT = b"-----BEGIN PSEUDO-SIGNED MESSAGE-----\nsig for %s\n"


def _check_errors():
    from bzrformats.errors import BzrCheckError
    return (BzrCheckError,)


# ------------------------------------------------------------------ fixture

class Fixture:
    def __init__(self, case, env):
        from vf.lib import bz
        self.case = case
        d = self.dir = env.newdir()
        fmt = case["format"]
        self.src = wg.build_source(d + "/src", fmt, case["nrevs"],
                                   case["nfiles"], case["sizes"],
                                   case.get("wide", 0))
        self.srepo = self.src.repository
        self.u = wg.Universe(self.srepo, case["nrevs"])
        self.srepo.lock_read()
        self._locked = True
        base = case["base"]
        self.fallback = None
        if case.get("stacked"):
            fb = bz.init_branch(d + "/fb", fmt)
            fb.repository.fetch(self.srepo, rid(base - 1))
            fb.generate_revision_history(rid(base - 1))
            self.fallback = d + "/fb"
        self.A = self._target(d + "/A")
        self.fallback_keys = {vf: set() for vf in wg.VFS}
        if self.fallback:
            from breezy import repository as _r
            r = _r.Repository.open(self.fallback)
            with r.lock_read():
                for vf in wg.vfs_of(r):
                    self.fallback_keys[vf] = set(getattr(r, vf).keys())

    def _target(self, path):
        from vf.lib import bz
        br = bz.init_branch(path, self.case["format"])
        if self.fallback:
            br.set_stacked_on_url("../fb")
        else:
            br.repository.fetch(self.srepo, rid(self.case["base"] - 1))
        return path

    def close(self):
        if self._locked:
            self._locked = False
            self.srepo.unlock()

    def twin(self):
        return self._target(self.dir + "/B")

    def local_keys(self, path):
        from breezy import branch as _b
        r = _b.Branch.open(path).repository
        out = {}
        with r.lock_read():
            for vf in wg.vfs_of(r):
                out[vf] = set(getattr(r, vf).without_fallbacks().keys())
        return out


# ------------------------------------------------------------------ engine

def _insert(fx, repo, ins, model):
    """Perform one insertion; returns a short tag of what happened."""
    u = fx.u
    i = ins["rev"]
    if "api" in ins:
        api = ins["api"]
        visible_inv = model.local("inventories") | \
            fx.fallback_keys["inventories"]
        if api == "add_signature_text":
            repo.add_signature_text(rid(i), SIG_TEXT % rid(i))
            model.ins["signatures"].add((rid(i),))
            return api
        if api == "add_revision":
            if (rid(i),) not in visible_inv or \
                    (rid(i),) in model.local("revisions"):
                return "skipped"
            rev = fx.srepo.get_revision(rid(i))
            repo.add_revision(rid(i), rev)
            model.ins["revisions"].add((rid(i),))
            return api
        if api == "add_inventory_by_delta":
            visible_chk = model.local("chk_bytes") | \
                fx.fallback_keys["chk_bytes"]
            if i == 0 or (rid(i - 1),) not in visible_inv or \
                    (rid(i),) in model.local("inventories") or \
                    u.pages[i - 1] - visible_chk:
                return "skipped"
            new = fx.srepo.get_inventory(rid(i))
            old = fx.srepo.get_inventory(rid(i - 1))
            delta = new._make_delta(old)
            repo.add_inventory_by_delta(rid(i - 1), delta, rid(i),
                                        [rid(i - 1)])
            model.ins["inventories"].add((rid(i),))
            if u.chk:
                # applying the delta writes exactly the nodes that changed
                model.ins["chk_bytes"].update(u.pages[i] - u.pages[i - 1])
            return api
        raise ValueError(api)
    vf = ins["vf"]
    keys = u.keys_for(vf, i, ins.get("drop", []))
    if not keys:
        return "empty"
    stream = getattr(fx.srepo, vf).get_record_stream(
        keys, "unordered", ins.get("closure", True))

    def observed():
        for rec in stream:
            sk = rec.storage_kind
            if "delta" in sk and "closure" not in sk and rec.parents:
                model.deltas.append((vf, rec.key, rec.parents[0]))
            yield rec
    getattr(repo, vf).insert_record_stream(observed())
    model.ins[vf].update(keys)
    return vf


def _open_locked(path, via_seam=False):
    # through the branch, so that a stacked target has its fallback attached
    from breezy import branch as _b
    repo = _b.Branch.open(ft.url(path) if via_seam else path).repository
    repo.lock_write()
    return repo


def _assert_unchanged(path, before, up0, kind, what):
    """kind: aborted | refused.  Visible content first, then files."""
    after, up = wg.snapshot(path)
    vis = [k for k in before if k not in ("packs", "indices")]
    d = wg.diff_snap({k: before[k] for k in vis}, after)
    check(not d, "C06/%s-write-group-changed-repository" % kind, [what, d])
    files = {k: (before[k], after[k]) for k in ("packs", "indices")
             if before[k] != after[k]}
    check(not files, "C06/%s-write-group-left-unlisted-pack-files" % kind,
          [what, {k: sorted(set(v[1]) - set(v[0])) for k, v in files.items()}])
    check(up == up0, "C06/%s-write-group-left-upload-files" % kind, [what, up])


def execute(fx, path, suspends=True, badtok=None):
    """Run the case's program on the repository at `path`.
    -> (outcome, model, info)   outcome: committed | refused | aborted |
    bad-token-ended"""
    case = fx.case
    model = wg.GroupModel(fx.u, fx.local_keys(path), fx.fallback_keys)
    before, up0 = wg.snapshot(path)
    cuts = sorted(case["cuts"]) if suspends else []
    info = {"suspends": 0, "tags": [], "before": before, "up0": up0}
    repo = _open_locked(path)
    try:
        repo.start_write_group()
        ingroup = True
        try:
            for pos, ins in enumerate(case["ins"]):
                while cuts and cuts[0] <= pos:
                    cuts.pop(0)
                    repo, ended = _suspend_resume(fx, path, repo, before,
                                                  info, badtok)
                    if ended:
                        ingroup = False
                        return "bad-token-ended", model, info
                info["tags"].append(_insert(fx, repo, ins, model))
            while cuts:
                cuts.pop(0)
                repo, ended = _suspend_resume(fx, path, repo, before, info,
                                              badtok)
                if ended:
                    ingroup = False
                    return "bad-token-ended", model, info
            if case["end"] == "abort":
                repo.abort_write_group()
                ingroup = False
                return "aborted", model, info
            try:
                repo.commit_write_group()
                ingroup = False
                return "committed", model, info
            except _check_errors() as e:
                info["refusal"] = str(e)[:300]
                repo.abort_write_group()
                ingroup = False
                return "refused", model, info
        finally:
            if ingroup and repo.is_in_write_group():
                repo.abort_write_group(suppress_errors=True)
    finally:
        if repo.is_locked():
            repo.unlock()


def _suspend_resume(fx, path, repo, before, info, badtok):
    from breezy import errors
    tokens = repo.suspend_write_group()
    repo.unlock()
    info["suspends"] += 1
    after, up = wg.snapshot(path)
    check(after == before, "C06/suspended-group-visible",
          [info["suspends"], wg.diff_snap(before, after)])
    for t in tokens:
        check(t + ".pack" in up, "C06/suspended-pack-not-in-upload",
              [tokens, up])
    repo = _open_locked(path)
    if badtok and info["suspends"] == 1:
        bad = {"garbage": ["not-a-token"], "absent": ["0" * 32],
               "escape": ["../packs/" + "a" * 32],
               "mixed": list(tokens) + ["f" * 32]}[badtok]
        try:
            repo.resume_write_group(bad)
        except errors.UnresumableWriteGroup:
            info["badtok"] = "refused"
        else:
            raise_sig = "C06/malformed-resume-token-accepted"
            if repo.is_in_write_group():
                repo.abort_write_group()
            repo.unlock()
            check(False, raise_sig, [badtok, bad])
        check(not repo.is_in_write_group(),
              "C06/write-group-open-after-refused-resume", badtok)
        a2, _ = wg.snapshot(path)
        check(a2 == before, "C06/refused-resume-changed-repository",
              [badtok, wg.diff_snap(before, a2)])
        if badtok == "mixed" and tokens:
            # the refusal may legitimately have discarded the valid part of
            # the token list; the program ends here
            repo.unlock()
            return repo, True
    repo.resume_write_group(tokens)
    return repo, False


def _expect_label(exp):
    return exp.split(":")[0] if exp != "accept" else "complete"


def _family(case):
    f = case["format"]
    return ("knitpack" if f in wg.KNIT_FAMILY else f) + (
        "+stacked" if case.get("stacked") else "")


def _judge(case, outcome, model, exp):
    """Acceptance oracle: -> None or (signature, detail)."""
    if outcome == "refused" and exp == "accept":
        return ("C06/complete-write-group-refused", None)
    if outcome == "committed" and exp.startswith("refuse"):
        why = exp.split(":", 1)[1]
        if case["format"] in wg.KNIT_FAMILY and why in (
                "inventory", "text", "text-shadowed"):
            return (F28, why)
        if why == "text-shadowed":
            return (SHADOW, None)
        return ("C06/incomplete-write-group-accepted-missing-" + why, None)
    return None


def _committed_state(fx, path, before, up0, model, what):
    after, up = wg.snapshot(path)
    vfs = [v for v in wg.VFS if v in after]
    for vf in vfs:
        want = before[vf] | model.ins[vf]
        check(after[vf] == want, "C06/committed-keys-differ-from-inserted",
              [what, vf, sorted(after[vf] ^ want)[:8]])
    check(after["revision_ids"] == before["revision_ids"] | {
        k[0] for k in model.ins["revisions"]},
        "C06/committed-revision-ids-differ", what)
    if up0 is not None:
        check(up == up0, "C06/upload-leftover-after-commit", [what, up])
    return after


def _content_equal(fx, path, model, what):
    from breezy import branch as _b
    repo = _b.Branch.open(path).repository
    vfs = [v for v in wg.vfs_of(repo) if v != "signatures"]
    mine = wg.content_of(repo, vfs, model.ins)
    ref = wg.content_of(fx.srepo, vfs, model.ins)
    for vf in vfs:
        for k, v in ref[vf].items():
            got = mine[vf].get(k)
            ok_ = got is not None and got[1] == v[1] and (
                vf == "chk_bytes" or got[0] == v[0])
            check(ok_, "C06/committed-content-differs-from-source",
                  [what, vf, k, got, v])
    with repo.lock_read():
        for (r,) in sorted(model.ins["signatures"]):
            check(repo.get_signature_text(r) == SIG_TEXT % r,
                  "C06/committed-signature-differs", [what, r])


def run(case, env):
    fx = Fixture(case, env)
    try:
        return _run(fx, case, env)
    finally:
        fx.close()


def _run(fx, case, env):
    outcome, model, info = execute(fx, fx.A, badtok=case.get("badtok"))
    before, up0 = info["before"], info["up0"]
    exp = model.expectation()
    nrev = len(model.ins["revisions"])
    label = "%s/%s/s%d/%s" % (_family(case), outcome, min(info["suspends"], 2),
                              _expect_label(exp))
    nontrivial = (nrev >= 1 and (outcome in ("aborted", "refused") or
                                 info["suspends"] >= 1)) or \
        exp.startswith("refuse")
    if outcome in ("aborted", "refused"):
        _assert_unchanged(fx.A, before, up0, outcome, outcome)
    if outcome == "bad-token-ended":
        return ok(label) if nontrivial else trivial()
    verdict = _judge(case, outcome, model, exp)
    if outcome == "committed":
        _committed_state(fx, fx.A, before, up0, model, "A")
        if verdict is None:
            _content_equal(fx, fx.A, model, "A")
        if info["suspends"] and verdict is None:
            # differential: the same insertions committed directly
            B = fx.twin()
            out_b, model_b, info_b = execute(fx, B, suspends=False)
            check(out_b == "committed",
                  "C06/suspend-resume-accepts-what-direct-commit-refuses",
                  [out_b, info_b.get("refusal")])
            a, _ = wg.snapshot(fx.A)
            b, _ = wg.snapshot(B)
            for vf in [v for v in wg.VFS if v in a]:
                check(a[vf] == b[vf],
                      "C06/suspend-resume-commit-differs-from-direct",
                      [vf, sorted(a[vf] ^ b[vf])[:8]])
            _content_equal(fx, B, model_b, "B")
    elif outcome == "refused" and info["suspends"] and verdict is None and \
            exp.startswith("refuse"):
        B = fx.twin()
        out_b, _, _ = execute(fx, B, suspends=False)
        check(out_b == "refused",
              "C06/suspend-resume-refuses-what-direct-commit-accepts",
              [out_b, info.get("refusal")])
    if verdict is not None:
        return violation(verdict[0], [verdict[1], info.get("tags"),
                                      info.get("refusal")], label=label)
    return ok(label) if nontrivial else trivial()


# ------------------------------------------------------------------ context

CONTEXT = ["start-unlocked", "start-twice", "commit-without-group",
           "abort-without-group", "context-manager", "unlock-in-group",
           "reuse-after-refusal", "reuse-after-abort", "reuse-after-commit",
           "reuse-after-suspend"]


def enum_context(tier):
    for fmt in ("2a", "pack-0.92"):
        for name in CONTEXT:
            yield {"format": fmt, "scenario": name}


def _stores(fmt):
    return ["texts"] + (["chk_bytes"] if fmt == "2a" else []) + [
        "inventories", "revisions"]


def _plan(fmt, rev, without=()):
    return [{"vf": vf, "rev": rev, "drop": [], "closure": True}
            for vf in _stores(fmt) if vf not in without]


def run_context(case, env):
    """Write-group context management on ONE long-lived repository object:
    refusals leave the object and the store usable, nothing leaks from an
    ended group into the next one."""
    from breezy import errors
    from breezy.repository import WriteGroup
    fmt = case["format"]
    sc = case["scenario"]
    base = {"format": fmt, "stacked": False, "nrevs": 4, "base": 1,
            "nfiles": 2, "sizes": [300], "wide": 0, "ins": [], "cuts": [],
            "end": "commit", "badtok": None}
    fx = Fixture(base, env)
    try:
        before, up0 = wg.snapshot(fx.A)
        model = wg.GroupModel(fx.u, fx.local_keys(fx.A), fx.fallback_keys)
        from breezy import branch as _b
        repo = _b.Branch.open(fx.A).repository

        def insert(plan):
            for ins in plan:
                _insert(fx, repo, ins, model)

        def expect_error(fn, what):
            try:
                fn()
            except errors.BzrError as e:
                return type(e).__name__
            check(False, "C06/context-%s-not-refused" % what, sc)

        if sc == "start-unlocked":
            expect_error(repo.start_write_group, "start-without-write-lock")
            check(not repo.is_in_write_group(),
                  "C06/context-write-group-open-after-refused-start", sc)
            _assert_unchanged(fx.A, before, up0, "refused", sc)
            return ok("context/%s/%s" % (fmt, sc))
        repo.lock_write()
        try:
            if sc == "start-twice":
                repo.start_write_group()
                insert(_plan(fmt, 1))
                expect_error(repo.start_write_group, "second-start")
                check(repo.is_in_write_group(),
                      "C06/context-refused-second-start-closed-the-group", sc)
                repo.commit_write_group()
            elif sc == "commit-without-group":
                expect_error(repo.commit_write_group, "commit-without-group")
            elif sc == "abort-without-group":
                expect_error(repo.abort_write_group, "abort-without-group")
                repo.abort_write_group(suppress_errors=True)
            elif sc == "context-manager":
                class Boom(Exception):
                    pass
                try:
                    with WriteGroup(repo):
                        insert(_plan(fmt, 1))
                        raise Boom()
                except Boom:
                    pass
                check(not repo.is_in_write_group(),
                      "C06/context-manager-left-group-open", sc)
                repo.unlock()
                _assert_unchanged(fx.A, before, up0, "aborted", sc)
                repo.lock_write()
                model.ins = {vf: set() for vf in wg.VFS}
                with WriteGroup(repo):
                    insert(_plan(fmt, 1))
            elif sc == "unlock-in-group":
                repo.start_write_group()
                insert(_plan(fmt, 1))
                # unlock() is declared only_raises(LockNotHeld, LockBroken):
                # the "must end write group" error is logged, not raised; the
                # group must be aborted and the lock released all the same
                repo.unlock()
                check(not repo.is_locked() and not repo.is_in_write_group(),
                      "C06/context-unlock-in-group-left-object-locked", sc)
                _assert_unchanged(fx.A, before, up0, "aborted", sc)
                return ok("context/%s/%s" % (fmt, sc))
            elif sc.startswith("reuse-after-"):
                # first group on this object: revision 2 without its
                # inventory (and its texts), ended in the named way ...
                repo.start_write_group()
                first = _plan(fmt, 1) + _plan(fmt, 2, without=(
                    "inventories", "texts"))
                how = sc[len("reuse-after-"):]
                if how == "commit":
                    first = _plan(fmt, 1)
                insert(first)
                if how == "refusal":
                    refused = False
                    try:
                        repo.commit_write_group()
                    except _check_errors():
                        refused = True
                        repo.abort_write_group()
                    if not refused:
                        # knit-pack formats accept it (F28)
                        return violation(F28, ["context", sc],
                                         label="context/%s/%s" % (fmt, sc))
                elif how == "abort":
                    repo.abort_write_group()
                elif how == "suspend":
                    repo.suspend_write_group()
                else:
                    repo.commit_write_group()
                if how != "commit":
                    repo.unlock()
                    _assert_unchanged(fx.A, before, up0 if how != "suspend"
                                      else wg.snapshot(fx.A)[1],
                                      "aborted", sc)
                    repo.lock_write()
                    model.ins = {vf: set() for vf in wg.VFS}
                up_now = wg.snapshot(fx.A)[1]
                # ... then a second, complete group on the SAME object must
                # be judged on its own content
                repo.start_write_group()
                insert(_plan(fmt, 1) if how != "commit" else _plan(fmt, 2))
                try:
                    repo.commit_write_group()
                except _check_errors() as e:
                    repo.abort_write_group()
                    check(False, "C06/context-state-leaked-into-next-group",
                          [sc, str(e)[:300]])
                up0 = up_now
        finally:
            if repo.is_in_write_group():
                repo.abort_write_group(suppress_errors=True)
            if repo.is_locked():
                repo.unlock()
        if sc in ("commit-without-group", "abort-without-group"):
            _assert_unchanged(fx.A, before, up0, "refused", sc)
        else:
            _committed_state(fx, fx.A, before, up0, model, sc)
            _content_equal(fx, fx.A, model, sc)
        return ok("context/%s/%s" % (fmt, sc))
    finally:
        fx.close()


# ------------------------------------------------------------------ faults

def run_faults(case, env):
    """Every transport-fault position of the closing operation."""
    fx = Fixture(case, env)
    try:
        return _run_faults(fx, case, env)
    finally:
        fx.close()


def _run_faults(fx, case, env):
    from dromedary import errors as derr
    from breezy import errors
    phase = case["phase"]        # commit | abort | suspend
    tmpl = fx.A
    before, up0 = wg.snapshot(tmpl)
    work = fx.dir + "/W"
    n_eval = 0
    n_nt = 0
    hist = {}
    k = 0
    while True:
        if os.path.exists(work):
            shutil.rmtree(work)
        shutil.copytree(tmpl, work)
        model = wg.GroupModel(fx.u, fx.local_keys(work), fx.fallback_keys)
        repo = _open_locked(work, via_seam=True)
        failed = None
        fired = False
        try:
            repo.start_write_group()
            for ins in case["ins"]:
                _insert(fx, repo, ins, model)
            exp = model.expectation()
            with ft.session(mode="fault", fault_at=k) as c:
                try:
                    if phase == "commit":
                        try:
                            repo.commit_write_group()
                        except _check_errors():
                            pass
                    elif phase == "abort":
                        repo.abort_write_group()
                    else:
                        repo.suspend_write_group()
                except (derr.TransportError, errors.LockError) as e:
                    failed = type(e).__name__
                fired = c.fired
            # the API contract after any failure: abort the group
            if repo.is_in_write_group():
                repo.abort_write_group()
        finally:
            if repo.is_in_write_group():
                repo.abort_write_group(suppress_errors=True)
            if repo.is_locked():
                repo.unlock()
        if not fired:
            break
        n_eval += 1
        after, up = wg.snapshot(work)
        what = "%s:fault@%d:%s" % (phase, k, failed or "absorbed")
        hist[failed or "absorbed"] = hist.get(failed or "absorbed", 0) + 1
        vis = [x for x in before if x not in ("packs", "indices")]
        changed = any(after[x] != before[x] for x in vis)
        if changed and phase == "commit" and exp.startswith("refuse"):
            # an incomplete group went through: the acceptance defect, not a
            # fault-handling one; report it under the acceptance signature
            j = _judge(case, "committed", model, exp)
            if j is not None:
                return violation(j[0], [j[1], what],
                                 label="faults/%s/%s" % (_family(case), phase))
        if changed:
            # only a commit may have gone through, and then completely (a
            # failure after pack-names was rewritten cannot be rolled back)
            check(phase == "commit" and not exp.startswith("refuse"),
                  "C06/fault-in-%s-changed-repository" % phase,
                  [what, wg.diff_snap({x: before[x] for x in vis}, after)])
            _committed_state(fx, work, before, None, model, what)
            _content_equal(fx, work, model, what)
            hist["went-through"] = hist.get("went-through", 0) + 1
        # files the failed operation could not clean up are tolerated here as
        # long as pack-names does not list them
        listed = wg.listed_packs(work)
        check(listed <= {p[:-5] for p in after["packs"]},
              "C06/fault-in-%s-listed-pack-missing" % phase, [what])
        if len(model.ins["revisions"]) >= 1:
            n_nt += 1
        # a fresh writer is not blocked by what the failure left behind
        r2 = _open_locked(work)
        try:
            r2.start_write_group()
            r2.abort_write_group()
        finally:
            r2.unlock()
        k += 1
    if n_eval == 0:
        return trivial()
    return ok("faults/%s/%s" % (_family(case), phase), n=n_eval, nt=n_nt)


# ------------------------------------------------------------------ generator

@st.composite
def program(draw, tier, for_faults=False):
    fmt = draw(st.sampled_from(["2a", "2a", "pack-0.92", "1.9"]))
    stacked = fmt in ("2a", "1.9") and draw(st.integers(0, 4)) == 4
    nrevs = draw(st.integers(3, 6))
    base = draw(st.integers(1, 2))
    # gap: the group starts above the revisions the target has, so the first
    # new revision's parent inventory (and delta bases) are absent
    gap = 1 if base < nrevs - 1 and draw(st.integers(0, 5)) == 5 else 0
    top = draw(st.integers(base + gap, nrevs - 1))
    wide = 0
    if fmt == "2a" and draw(st.integers(0, 5)) == 5:
        wide = 800      # enough entries for a multi-level CHK map
    stores = ["texts"] + (["chk_bytes"] if fmt == "2a" else []) + [
        "inventories", "revisions"]
    ins = []
    for i in range(base + gap, top + 1):
        for vf in stores:
            ins.append({"vf": vf, "rev": i, "drop": [], "closure": True})
    nmut = draw(st.sampled_from([0, 0, 1, 1, 1, 2, 3]))
    for _ in range(nmut):
        if not ins:
            break
        j = draw(st.integers(0, len(ins) - 1))
        kind = draw(st.sampled_from(
            ["drop-key", "drop-key", "remove", "open-delta", "open-delta",
             "api", "signature", "extra-parent-inv"]))
        cur = ins[j]
        if kind == "drop-key" and "vf" in cur:
            cur["drop"] = sorted(set(cur["drop"]) | {draw(st.integers(0, 7))})
        elif kind == "remove":
            del ins[j]
        elif kind == "open-delta" and "vf" in cur:
            cur["closure"] = False
        elif kind == "api" and "vf" in cur:
            if cur["vf"] == "revisions":
                ins[j] = {"api": "add_revision", "rev": cur["rev"]}
            elif cur["vf"] == "inventories" and fmt == "2a":
                # the API writes the CHK pages itself
                ins[j] = {"api": "add_inventory_by_delta", "rev": cur["rev"]}
        elif kind == "signature":
            ins.insert(j, {"api": "add_signature_text",
                           "rev": draw(st.integers(0, top))})
        elif kind == "extra-parent-inv" and stacked:
            # stacked target: bring the parent inventory of the first new
            # revision (and its pages) into the group as well
            ins.insert(0, {"vf": "inventories", "rev": base - 1, "drop": [],
                           "closure": True})
            if fmt == "2a":
                for b in range(base):
                    ins.insert(0, {"vf": "chk_bytes", "rev": b, "drop": [],
                                   "closure": True})
    if draw(st.integers(0, 3)) == 3 and len(ins) > 1:
        ins = list(draw(st.permutations(ins)))
    case = {"format": fmt, "stacked": stacked, "nrevs": nrevs, "base": base,
            "nfiles": draw(st.integers(1, 3)),
            "sizes": draw(st.lists(st.sampled_from([30, 300, 3000]),
                                   min_size=1, max_size=2)),
            "wide": wide, "ins": ins}
    if for_faults:
        case["phase"] = draw(st.sampled_from(["commit", "commit", "abort",
                                              "suspend"]))
        return case
    ns = draw(st.sampled_from([0, 1, 1, 2, 3]))
    case["cuts"] = sorted(draw(st.lists(st.integers(0, len(ins)),
                                        min_size=ns, max_size=ns)))
    case["end"] = draw(st.sampled_from(["commit", "commit", "abort"]))
    case["badtok"] = None
    if ns and draw(st.integers(0, 3)) == 3:
        case["badtok"] = draw(st.sampled_from(["garbage", "absent", "escape",
                                               "mixed"]))
    return case


def kinds(tier):
    return [
        Kind("programs", run, strategy=program(tier),
             examples={"quick": 400, "thorough": 20000}),
        Kind("context", run_context, enumerate=enum_context, exhaustive=True,
             hash_cases=False),
        Kind("fault-enumeration", run_faults,
             strategy=program(tier, for_faults=True),
             examples={"quick": 16, "thorough": 800}),
    ]
