"""C19 - text conflicts are reported exactly when conflict markers are written;
helper files hold BASE/THIS/OTHER; take-this / take-other restore those texts."""

import os
import re

from hypothesis import strategies as st

from vf.api import Kind, check, ok, trivial
from vf.lib import bz, history, treemodel as tm

PROPERTY = "C19"
LEVEL = "exploration"
TECHNIQUE = ("Hypothesis-generated (BASE, THIS, OTHER) line-sequence triples "
             "committed as one file id in a real 2a tree and merged with "
             "Merger.do_merge; differential oracle against the trusted merge3 "
             "package (patiencediff matcher, standard markers) for conflict "
             "record, file bytes and helper files; then conflicts.resolve")
RULE = ("base = 0-10 lines over a 10-line alphabet plus marker-looking lines "
        "(<<<<<<< TREE, =======, >>>>>>> MERGE-SOURCE, bare markers, ||||||| "
        "BASE-REVISION), CR/CRLF lines, empty lines, a line containing the "
        "sentinel text not at its start; THIS and OTHER are 0-3 splices of "
        "base each; each text may lack its final newline. Options reprocess / "
        "show_base (never both) / cherrypick (BASE is not an ancestor of THIS; "
        "the common root carries THIS's or BASE's text) "
        "/ interesting_files / uncommitted THIS / a rename on one side / file "
        "in a sub-directory / odd file names; merge types merge3 (exact "
        "oracle), weave and lca (weak oracle); follow-up resolve action. "
        "One case in eight has no BASE text (the file is added under the "
        "same file id on both sides, or the given BASE revision predates "
        "it); a second file changed on both sides that merges cleanly may "
        "accompany the main file (its file id is drawn so that it is merged "
        "before or after it); resolve acts on the path or on all conflicts, "
        "optionally after the user removed the BASE helper. Kind "
        "'contents-conflicts' drives the other anchored resolution code "
        "(ContentsConflict): binary file changed on both sides, or modified "
        "on one side and deleted on the other, then take_this / take_other. "
        "Lines *starting* with the internal sentinel are generated only by "
        "the separate low-budget kind 'sentinel'. Non-trivial: the reference "
        "merge has a conflict region, or it is clean and THIS, OTHER, BASE are "
        "pairwise different. Distinct by case hash.")
ASSUMPTIONS = [
    "merge3.Merge3 + patiencediff.PatienceSequenceMatcher (site-packages) are "
    "the trusted reference for regions and marker layout",
    "texts contain no NUL byte (binary files become contents conflicts, a "
    "different conflict kind) and lines are delimited by \\n only",
    "tree set-up through vf.lib.history.build_wt (commit, reset_state) is "
    "correct (covered by C01/C02)",
]
LEVEL_TEXT = ("Sampled exploration with an exact differential oracle: for "
              "every generated triple and option set the recorded conflicts, "
              "the merged bytes, the complete directory content (helper files "
              "included) and the state after take_this / take_other / auto "
              "are compared with what the trusted merge3 library computes "
              "from the three texts alone.")
LEVEL_NOTE = ("Reference = merge3 package with patiencediff; texts bounded to "
              "~14 lines over a small alphabet; weave / lca merge types only "
              "get the weak oracle (conflict recorded <=> helper files, THIS / "
              "OTHER helper contents, resolution laws); open finding F10 "
              "(sentinel-prefixed user line) is confined to its own kind.")
REGISTERED = True
NONTRIVIAL_FLOOR = {"quick": 300, "thorough": 5000}

SENTINEL = "!START OF MERGE CONFLICT!I HOPE THIS IS UNIQUE"
MARKER_RE = re.compile(b"^(<{7}|={7}|>{7})")

NORMAL = list(tm.LINES) + ["eta\n", "theta\n", "iota\n", "kappa\n"]
SPECIAL = ["<<<<<<< TREE\n", "=======\n", ">>>>>>> MERGE-SOURCE\n",
           "<<<<<<<\n", ">>>>>>>\n", "||||||| BASE-REVISION\n",
           "<<<<<<< TREE\r\n", "cr\r\n", "alpha\r\n", "\n", " \n",
           "x " + SENTINEL + "\n", "=======x\n"]
SENT_LINES = [SENTINEL + "\n", SENTINEL + " and more\n", SENTINEL + "\r\n",
              SENTINEL + SENTINEL + "\n"]

FILE_ID = "file-id"
DIR_ID = "dir-id"
EXTRA_ID = "extra-id"
EXTRA_IDS = ["xa-id", "xb-id", "xc-id", "xd-id", "xe-id", "xf-id", "xg-id",
             "xh-id"]
NAMES = ["f", "f", "f", "a b", "\xe4", "x.BASE", "-dash"]


# ------------------------------------------------------------------ reference

def split_lines(data):
    """bytes -> list of lines, each ending in \\n except possibly the last."""
    out = []
    start = 0
    while start < len(data):
        i = data.find(b"\n", start)
        if i < 0:
            out.append(data[start:])
            break
        out.append(data[start:i + 1])
        start = i + 1
    return out


def reference(base, this, other, reprocess, show_base, cherrypick):
    """-> (has_conflict, merged bytes) from the trusted merge3 package."""
    import merge3
    import patiencediff
    if not base and not this and not other:
        # merge3 cannot tell bytes from str for three empty sequences
        return False, b""
    m3 = merge3.Merge3(base, this, other, is_cherrypick=cherrypick,
                       sequence_matcher=patiencediff.PatienceSequenceMatcher)
    regions = list(m3.merge_regions())
    if reprocess:
        regions = list(m3.reprocess_merge_regions(iter(regions)))
    has_conflict = any(r[0] == "conflict" for r in regions)
    lines = list(m3.merge_lines(
        name_a=b"TREE", name_b=b"MERGE-SOURCE", name_base=b"BASE-REVISION",
        base_marker=(b"|" * 7 if show_base else None), reprocess=reprocess))
    return has_conflict, b"".join(lines)


# ------------------------------------------------------------------ set-up

EXTRA_TEXTS = {"base": "e1\ne2\ne3\ne4\ne5\n", "this": "E1\ne2\ne3\ne4\ne5\n",
               "other": "e1\ne2\ne3\ne4\nE5\n",
               "merged": "E1\ne2\ne3\ne4\nE5\n"}


def extra_mode(case):
    """None | 'other-only' | 'clean-after' | 'clean-before' (a second file;
    the last two are changed on both sides and merge cleanly, processed
    after / before the main file)."""
    e = case.get("extra")
    if e is True:
        return "other-only"
    return e or None


def extra_name(case):
    return "0extra" if extra_mode(case) == "clean-before" else "zextra"


def extra_id(case):
    # entries are merged in the order of the inventory's hash-keyed map, so
    # which of the two files comes first depends on the id: the generator
    # draws it ("extra_id") to get both orders
    return case.get("extra_id") or "extra-id"


def build_spec(case):
    """history spec r0 [-> ob] -> o ; r0 -> t, all carrying FILE_ID (with
    base_absent the file is added under the same id on both sides)."""
    place = case["place"]
    cherry = case["opts"]["cherrypick"]
    dirty = case["dirty"]
    absent = case.get("base_absent", False)
    em = extra_mode(case)
    xid = extra_id(case)
    parent = tm.ROOT_ID
    ops0 = []
    if place["dir"]:
        ops0.append(["add", DIR_ID, tm.ROOT_ID, place["dir"], "directory",
                     None, False])
        parent = DIR_ID
    if cherry and not dirty and case["root"] == "this":
        first = case["this"]
    else:
        first = case["base"]
    if not absent:
        ops0.append(["add", FILE_ID, parent, place["name"], "file", first,
                     False])
    if em == "other-only":
        ops0.append(["add", xid, tm.ROOT_ID, "zextra", "file",
                     "extra base\n", False])
    elif em:
        ops0.append(["add", xid, tm.ROOT_ID, extra_name(case), "file",
                     EXTRA_TEXTS["base"], False])
    ren = ["rename", FILE_ID, parent, place["name"] + ".moved"]
    if absent:
        ops_o = [["add", FILE_ID, parent, place["name"], "file",
                  case["other"], False]]
        ops_t = [["add", FILE_ID, parent, place["name"], "file",
                  case["this"], False]]
    else:
        ops_o = [["modify", FILE_ID, case["other"]]]
        if case["rename"] == "other":
            ops_o.append(ren)
        ops_t = []
        if not dirty:
            ops_t.append(["modify", FILE_ID, case["this"]])
        if case["rename"] == "this":
            ops_t.append(ren)
    if em == "other-only":
        ops_o.append(["modify", xid, "extra other\n"])
    elif em:
        ops_o.append(["modify", xid, EXTRA_TEXTS["other"]])
        ops_t.append(["modify", xid, EXTRA_TEXTS["this"]])

    def rev(i, rid, parents, ops):
        return {"id": rid, "parents": parents, "ghosts": [], "ops": ops,
                "msg": rid, "ts": bz.T0 + 100 * i, "tz": 0,
                "committer": bz.COMMITTER, "props": {}}
    revs = [rev(0, "r0", [], ops0)]
    if cherry:
        revs.append(rev(1, "ob", ["r0"], [] if absent else
                        [["modify", FILE_ID, case["base"]]]))
        revs.append(rev(2, "o", ["ob"], ops_o))
    else:
        revs.append(rev(1, "o", ["r0"], ops_o))
    revs.append(rev(3, "t", ["r0"], ops_t))
    return {"revs": revs, "tags": {}}


def merge_type(name):
    from breezy import merge as _merge
    return {"merge3": _merge.Merge3Merger, "weave": _merge.WeaveMerger,
            "lca": _merge.LCAMerger}[name]


def has_sentinel_line(case):
    s = SENTINEL.encode("latin-1")
    for k in ("base", "this", "other"):
        for line in split_lines(case[k].encode("latin-1")):
            if line.startswith(s):
                return True
    return False


class Sig:
    """Maps a specific signature to the open F10 signature when the case has
    a user line starting with the sentinel (separate, labelled class)."""

    def __init__(self, case):
        self.f10 = has_sentinel_line(case)

    def __call__(self, name):
        if self.f10:
            return "C19/sentinel-prefixed-user-line"
        return "C19/" + name


def conflict_view(wt):
    out = []
    for c in wt.conflicts():
        fid = getattr(c, "file_id", None)
        if isinstance(fid, bytes):
            fid = fid.decode("utf-8")
        out.append([c.typestring, c.path, fid])
    out.sort(key=lambda r: (r[0], r[1], str(r[2])))
    return out


def fs_files(root):
    """{relpath: bytes-as-latin1} for files, {relpath: None} for dirs."""
    out = {}
    for p, (kind, val, _ex) in bz.snapshot_fs(root).items():
        out[p] = val if kind == "file" else (None if kind == "directory"
                                             else "<%s>" % kind)
    return out


# ------------------------------------------------------------------ run

def run(case, env):
    from breezy import conflicts as _conflicts
    from breezy import merge as _merge
    sig = Sig(case)
    opts = case["opts"]
    mt = case["mtype"]
    exact = mt == "merge3"
    absent = case.get("base_absent", False)
    base_b = b"" if absent else case["base"].encode("latin-1")
    this_b = case["this"].encode("latin-1")
    other_b = case["other"].encode("latin-1")
    d = env.newdir()
    spec = build_spec(case)
    wt, models, idmap = history.build_wt(spec, os.path.join(d, "t"),
                                         format="2a")
    root = wt.basedir
    m_this = models["t"]
    this_path = tm.path_of(m_this, FILE_ID)
    other_path = tm.path_of(models["o"], FILE_ID)
    final_path = other_path if case["rename"] == "other" else this_path
    if case["dirty"]:
        with open(os.path.join(root, this_path), "wb") as f:
            f.write(this_b)
        bz.age_files(root)
    # ---- merge
    with wt.lock_write():
        merger = _merge.Merger.from_revision_ids(
            wt, other=idmap["o"],
            base=idmap["ob"] if opts["cherrypick"] else None)
        merger.merge_type = merge_type(mt)
        merger.reprocess = opts["reprocess"]
        merger.show_base = opts["show_base"]
        if case["interesting"]:
            merger.set_interesting_files([this_path])
        cooked = merger.do_merge()
    wt = bz.open_tree(root)
    # ---- reference
    ref_conflict, ref_bytes = reference(
        split_lines(base_b), split_lines(this_b), split_lines(other_b),
        opts["reprocess"], opts["show_base"], opts["cherrypick"])
    unchanged_this = this_b == base_b and not opts["cherrypick"]
    one_sided = (this_b == base_b or other_b == base_b or this_b == other_b)
    confl = conflict_view(wt)
    text_confl = [c for c in confl if c[0] == "text conflict"]
    got = fs_files(root)
    detail = {"case": case, "conflicts": confl,
              "fs": {k: v for k, v in got.items()}}
    check(len(cooked) == len(confl), sig("cooked-conflicts-not-recorded"),
          [detail, [str(c) for c in cooked]])
    check(all(c[0] == "text conflict" for c in confl),
          sig("non-text-conflict-on-text-merge"), detail)
    check(all(c[1] == final_path and c[2] == FILE_ID for c in text_confl)
          and len(text_confl) <= 1,
          sig("text-conflict-names-wrong-file"), detail)
    recorded = bool(text_confl)
    helpers = {s: final_path + "." + s for s in ("BASE", "THIS", "OTHER")}
    present = {s: (p in got) for s, p in helpers.items()}
    # expected directory content apart from the merged file and its helpers
    expect = {}
    if case["place"]["dir"]:
        expect[case["place"]["dir"]] = None
    em = extra_mode(case)
    if em == "other-only":
        expect["zextra"] = ("extra base\n" if case["interesting"]
                            else "extra other\n")
    elif em:
        # changed on both sides, merges cleanly: no conflict, no helpers
        expect[extra_name(case)] = EXTRA_TEXTS[
            "this" if case["interesting"] else "merged"]
    rest = {k: v for k, v in got.items()
            if k != final_path and k not in helpers.values()}
    check(rest == expect, sig("unrelated-files-differ"),
          [detail, expect])
    check(final_path in got and got[final_path] is not None,
          sig("merged-file-missing"), detail)
    merged = got[final_path].encode("latin-1")
    if exact:
        check(recorded == ref_conflict,
              sig("conflict-recorded-without-conflict-region") if recorded
              else sig("conflict-region-without-conflict-record"),
              [detail, ref_conflict])
        check(merged == ref_bytes,
              sig("conflicted-file-bytes-differ") if ref_conflict
              else sig("clean-merge-bytes-differ"),
              [detail, ref_bytes.decode("latin-1")])
    if recorded:
        need = dict(present)
        if absent:
            # the file does not exist in BASE: there is no BASE text; the
            # helper may be missing or empty
            need.pop("BASE")
            check(got.get(helpers["BASE"], "") == "",
                  sig("helper-BASE-wrong-text"), [detail, "BASE"])
        check(all(need.values()), sig("helper-file-missing"),
              [detail, present])
        texts = {"THIS": this_b, "OTHER": other_b}
        if exact and not absent:
            texts["BASE"] = base_b
        for s in sorted(texts):
            check(got[helpers[s]] == texts[s].decode("latin-1"),
                  sig("helper-%s-wrong-text" % s), [detail, s])
        if not exact:
            check(any(l.startswith(b"<<<<<<< TREE")
                      for l in split_lines(merged)),
                  sig("history-merge-conflict-without-markers"), detail)
    else:
        check(not any(present.values()),
              sig("helper-files-without-conflict"), [detail, present])
        if not exact and one_sided:
            # the only statement the reference can make for plan merges
            want = (other_b if unchanged_this or this_b == other_b else
                    this_b if other_b == base_b else None)
            if want is not None and not opts["cherrypick"]:
                check(merged == want, sig("history-one-sided-merge-wrong"),
                      [detail, want.decode("latin-1")])
    # ---- resolution
    action = case["resolve"]
    res_label = "noresolve"
    rpaths = None if case.get("resolve_all") else [final_path]
    if recorded and action in ("take_this", "take_other"):
        if case.get("pre_remove") and helpers["BASE"] in got:
            # the user already threw the BASE helper away
            os.unlink(os.path.join(root, helpers["BASE"]))
        _conflicts.resolve(wt, paths=rpaths, action=action)
        wt = bz.open_tree(root)
        after = fs_files(root)
        want = dict(expect)
        want[final_path] = (case["this"] if action == "take_this"
                            else case["other"])
        d2 = {"case": case, "fs": after, "conflicts": conflict_view(wt)}
        check(after.get(final_path) == want[final_path],
              sig("%s-leaves-wrong-text" % action), d2)
        check(not any(p in after for p in helpers.values()),
              sig("%s-keeps-helper-files" % action), d2)
        check(after == want, sig("%s-touches-other-files" % action), d2)
        check(conflict_view(wt) == [],
              sig("%s-keeps-conflict-record" % action), d2)
        with wt.lock_read():
            check(wt.is_versioned(final_path),
                  sig("%s-unversions-file" % action), d2)
        res_label = action
    elif recorded and action == "auto":
        _conflicts.resolve(wt, paths=rpaths, action="auto")
        wt = bz.open_tree(root)
        after = fs_files(root)
        still = conflict_view(wt)
        marked = any(MARKER_RE.search(l) for l in split_lines(merged))
        d2 = {"case": case, "fs": after, "conflicts": still}
        if marked:
            check(still == confl, sig("auto-resolves-with-markers"), d2)
            check(after == got, sig("auto-unresolved-changes-files"), d2)
        # the user edits the markers away by hand (keeps THIS), then auto
        with open(os.path.join(root, final_path), "wb") as f:
            f.write(this_b)
        _conflicts.resolve(wt, paths=rpaths, action="auto")
        wt = bz.open_tree(root)
        after = fs_files(root)
        still = conflict_view(wt)
        clean = not any(MARKER_RE.search(l) for l in split_lines(this_b))
        d2 = {"case": case, "fs": after, "conflicts": still}
        if not still:
            check(clean, sig("auto-resolves-with-markers"), d2)
            check(not any(p in after for p in helpers.values()),
                  sig("auto-keeps-helper-files"), d2)
        check(after.get(final_path) == case["this"],
              sig("auto-changes-file"), d2)
        res_label = "auto"
    # ---- label
    if sig.f10:
        return ok("sentinel-line")
    has = ref_conflict if exact else recorded
    optl = ("cherrypick" if opts["cherrypick"] else
            "reprocess" if opts["reprocess"] else
            "show_base" if opts["show_base"] else "plain")
    if has and absent:
        return ok("%s/conflict-no-base/%s" % (mt, res_label))
    if has:
        return ok("%s/conflict/%s/%s" % (mt, optl, res_label))
    if not one_sided:
        return ok("%s/clean-both-changed/%s" % (mt, optl))
    return trivial()


# ------------------------------------------------------------------ strategy

def _line(sentinel):
    alts = [st.sampled_from(NORMAL)] * 4 + [st.sampled_from(SPECIAL)]
    if sentinel:
        alts.append(st.sampled_from(SENT_LINES))
    return st.one_of(*alts)


def _eof(draw, lines):
    text = "".join(lines)
    if not text:
        return text
    v = draw(st.sampled_from([0, 0, 0, 0, 0, 1, 2]))
    if v == 1 and text.endswith("\n"):
        return text[:-1]
    if v == 2:
        return text.rstrip("\r\n")
    return text


def _splice(draw, lines, line, n_min):
    lines = list(lines)
    for _ in range(draw(st.sampled_from([n_min, 1, 1, 2, 3]))):
        pos = draw(st.integers(0, len(lines)))
        ndel = draw(st.sampled_from([0, 1, 1, 2]))
        ins = draw(st.lists(line, max_size=2))
        lines[pos:pos + ndel] = ins
    return lines


@st.composite
def gen_case(draw, mtypes=("merge3",), sentinel=False):
    line = _line(sentinel)
    base = draw(st.lists(line, max_size=10))
    n_min = 0 if draw(st.integers(0, 9)) == 0 else 1
    this = _splice(draw, base, line, n_min)
    other = _splice(draw, base, line, n_min)
    if sentinel:
        # make sure one text carries a sentinel-prefixed line
        tgt = draw(st.sampled_from([base, this, other, this, other]))
        if not any(l.startswith(SENTINEL) for l in base + this + other):
            tgt.insert(draw(st.integers(0, len(tgt))),
                       draw(st.sampled_from(SENT_LINES)))
    mt = draw(st.sampled_from(list(mtypes)))
    o = draw(st.sampled_from(["plain", "plain", "reprocess", "show_base",
                              "cherrypick", "cherrypick+reprocess",
                              "cherrypick+show_base"]))
    if mt != "merge3":
        o = o.replace("+show_base", "").replace("show_base", "plain")
    opts = {"reprocess": "reprocess" in o, "show_base": "show_base" in o,
            "cherrypick": "cherrypick" in o}
    place = {"dir": draw(st.sampled_from([None, None, "sub", "d d"])),
             "name": draw(st.sampled_from(NAMES))}
    case = {
        "base": _eof(draw, base), "this": _eof(draw, this),
        "other": _eof(draw, other), "opts": opts, "mtype": mt,
        "place": place,
        "rename": draw(st.sampled_from([None, None, None, "this", "other"])),
        "dirty": (mt == "merge3" and draw(st.integers(0, 5)) == 0),
        "extra": draw(st.sampled_from([None, None, None, None, "other-only",
                                       "clean-after", "clean-before"])),
        # the file is new on both sides (same file id): no BASE text
        "extra_id": draw(st.sampled_from(EXTRA_IDS)),
        "base_absent": draw(st.integers(0, 7)) == 0,
        "resolve_all": draw(st.integers(0, 3)) == 0,
        "pre_remove": draw(st.integers(0, 4)) == 0,
        "interesting": False,
        # text of the common root revision when BASE is not that root
        "root": draw(st.sampled_from(["this", "base"])),
        "resolve": draw(st.sampled_from(["take_this", "take_other", "auto",
                                         "none"])),
    }
    if case["base_absent"]:
        case["rename"] = None
        case["dirty"] = False
    if case["rename"] != "other":
        # interesting_files is given as a THIS path
        case["interesting"] = draw(st.integers(0, 5)) == 0
    return case


# ------------------------------------------------------------------ contents
# conflicts (the other resolution action the property is anchored in):
# take_this / take_other must leave exactly the chosen side and no helpers

def run_contents(case, env):
    from breezy import conflicts as _conflicts
    from breezy import merge as _merge
    name = case["place"]["name"]
    parent = tm.ROOT_ID
    ops0 = []
    if case["place"]["dir"]:
        ops0.append(["add", DIR_ID, tm.ROOT_ID, case["place"]["dir"],
                     "directory", None, False])
        parent = DIR_ID
    ops0.append(["add", FILE_ID, parent, name, "file", case["base"], False])
    ops0.append(["add", EXTRA_ID, tm.ROOT_ID, "zextra", "file", "x\n", False])

    def side(text):
        return ([["delete", FILE_ID]] if text is None
                else [["modify", FILE_ID, text]])

    def rev(i, rid, parents, ops):
        return {"id": rid, "parents": parents, "ghosts": [], "ops": ops,
                "msg": rid, "ts": bz.T0 + 100 * i, "tz": 0,
                "committer": bz.COMMITTER, "props": {}}
    spec = {"revs": [rev(0, "r0", [], ops0), rev(1, "o", ["r0"],
                                                 side(case["other"])),
                     rev(2, "t", ["r0"], side(case["this"]))], "tags": {}}
    d = env.newdir()
    wt, models, idmap = history.build_wt(spec, os.path.join(d, "t"),
                                         format="2a")
    root = wt.basedir
    path = tm.path_of(models["r0"], FILE_ID)
    with wt.lock_write():
        merger = _merge.Merger.from_revision_ids(wt, other=idmap["o"])
        merger.merge_type = merge_type(case["mtype"])
        merger.do_merge()
    wt = bz.open_tree(root)
    confl = conflict_view(wt)
    got = fs_files(root)
    detail = {"case": case, "conflicts": confl, "fs": got}
    # no text merge took place: no text conflict may be recorded
    check(not any(c[0] == "text conflict" for c in confl),
          "C19/text-conflict-without-text-merge", detail)
    if [c[:2] for c in confl] != [["contents conflict", path]]:
        # the property does not say which conflict this input produces
        return trivial()
    action = case["resolve"]
    _conflicts.resolve(wt, paths=None if case["resolve_all"] else [path],
                       action=action)
    wt = bz.open_tree(root)
    after = fs_files(root)
    want = case["this"] if action == "take_this" else case["other"]
    d2 = {"case": case, "fs": after, "conflicts": conflict_view(wt),
          "before": got}
    both = case["this"] is not None and case["other"] is not None
    cls = ("C19/contents-both-sides-present-take_this-" if both and
           action == "take_this" else "C19/contents-%s-" % action)
    check(after.get(path) == want, cls + "leaves-wrong-content", d2)
    check(not any((path + "." + x) in after for x in ("BASE", "THIS",
                                                     "OTHER")),
          cls + "keeps-helper-files", d2)
    check(conflict_view(wt) == [], cls + "keeps-conflict-record", d2)
    return ok("contents/%s/%s/%s" % (
        "binary" if both else "this-deleted" if case["this"] is None
        else "other-deleted", action, case["mtype"]))


@st.composite
def gen_contents(draw):
    line = st.sampled_from(NORMAL)
    shape = draw(st.sampled_from(["binary", "this-deleted", "other-deleted"]))
    texts = draw(st.lists(st.lists(line, min_size=1, max_size=4).map("".join),
                          min_size=3, max_size=3, unique=True))
    if shape == "binary":
        texts = [t[:1] + "\0" + t[1:] for t in texts]
    case = {"base": texts[0], "this": texts[1], "other": texts[2],
            "mtype": draw(st.sampled_from(["merge3", "merge3", "weave"])),
            "place": {"dir": draw(st.sampled_from([None, None, "sub"])),
                      "name": draw(st.sampled_from(NAMES))},
            "resolve": draw(st.sampled_from(["take_this", "take_other"])),
            "resolve_all": draw(st.booleans())}
    if shape == "this-deleted":
        case["this"] = None
    elif shape == "other-deleted":
        case["other"] = None
    return case


def kinds(tier):
    ks = [
        Kind("merge3", run, strategy=gen_case(("merge3",)),
             examples={"quick": 1600, "thorough": 40000}),
        Kind("history-merges", run, strategy=gen_case(("weave", "lca")),
             examples={"quick": 240, "thorough": 8000}),
        Kind("sentinel", run, strategy=gen_case(("merge3",), sentinel=True),
             examples={"quick": 80, "thorough": 800}),
        Kind("contents-conflicts", run_contents, strategy=gen_contents(),
             examples={"quick": 200, "thorough": 2000}),
    ]
    return ks
