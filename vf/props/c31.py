"""C31 - smart server clients cannot reach files outside the served directory:
every client path, for every registered verb and every root client path, is
either refused or acted on inside the served directory; canaries outside stay
untouched and never show up in an answer; no control directory outside the
jail is opened while a request is served.

SAFETY: the transport underneath everything the server builds is
vf.lib.c31_jail.JailTransport, which REFUSES (and records as the violation) any
operation whose real path is outside the served directory of the case."""

import hashlib
import inspect
import os
import shutil

from hypothesis import strategies as st

from vf.api import Kind, b2s, check, ok, rejected, s2b, trivial, violation
from vf.lib import c29_wire as W
from vf.lib import c31_jail as J

PROPERTY = "C31"
LEVEL = "exploration"
TECHNIQUE = ("generated client paths x every registered smart verb, dispatched "
             "through the real v3 server stack over a backing transport built as "
             "the servers build it (chroot, userdir filter), on top of an "
             "enforcing recording transport that resolves the real path of every "
             "file operation; canary comparison; observer on the control-dir "
             "pre_open hook")
RULE = ("client path = 0-6 components from {., .., a, sub, served, secret.txt, "
        "sibling, br, stk, ref, .bzr, pub.txt, %2e%2e, %2F, ..%2F, %2f.., %5C, "
        "..%5c, %252F, ..%252F, %252e%252e, %25252F, ~, ~user, ~evil, empty, "
        "non-ASCII, NUL, %00, backslash forms, 300-character name} joined with "
        "'/', bare / absolute / below the root client path / below an encoded "
        "root; root client path in {/, /extra/, /a/b/, none}; backing transport "
        "= chroot over the enforcing transport, or "
        "BzrServerFactory._make_backing_transport with a generated userdir "
        "expander (targets inside the base, outside it, a sibling whose name "
        "extends the base name, a system directory); verb = any of the "
        "registered verbs with arguments shaped after its signature (further "
        "path-like arguments get generated paths too), bodies for verbs that "
        "take one. Non-trivial: the path contains '..', an escaped separator or "
        "a ~ form and, read textually (fully unescaped), leaves the served "
        "directory. Distinct by case hash.")
ASSUMPTIONS = [
    "every file operation of the server reaches the disk through the backing "
    "transport handed to the request handlers (the enforcing transport below "
    "it sees it) or through a transport opened by URL, which the pre_open "
    "observer sees for control directories",
    "client paths are valid UTF-8 (the wire carries bytes; undecodable paths "
    "are a different failure)",
    "symbolic links inside the served directory are not part of this property "
    "(C46)",
]
LEVEL_TEXT = ("Sampled paths x verbs x server configurations; each case observes "
              "all file operations of one request. The path language is "
              "unbounded, hence exploration.")
LEVEL_NOTE = ("Trusts the enforcing transport (self-tested in every run by the "
              "'interlock' kind against direct and chroot-level escapes) and "
              "realpath.")
REGISTERED = True
NONTRIVIAL_FLOOR = {"quick": 600, "thorough": 20000}

SECRET = b"VF-CANARY-7f3a9c-secret-content"
SIB_REV = b"vf-canary-sibling-rev-51c2"
SIB_TEXT = b"VF-CANARY-sibling-file-text-88ab\n"

READ_OPS = {"open", "clone", "get", "get_bytes", "has", "has_any", "stat",
            "list_dir", "iter_files_recursive", "readv", "_readv", "readlink",
            "lock_read"}

VFS_VERBS = ["append", "delete", "get", "has", "iter_files_recursive",
             "list_dir", "mkdir", "move", "put", "put_non_atomic", "readv",
             "rename", "rmdir", "stat"]
OTHER_VERBS = [
    "Branch.break_lock", "Branch.get_all_reference_info",
    "Branch.get_config_file", "Branch.get_parent",
    "Branch.get_physical_lock_status", "Branch.get_stacked_on_url",
    "Branch.get_tags_bytes", "Branch.heads_to_fetch",
    "Branch.last_revision_info", "Branch.lock_write",
    "Branch.put_config_file", "Branch.revision_history",
    "Branch.revision_id_to_revno", "Branch.set_config_option",
    "Branch.set_config_option_dict", "Branch.set_last_revision",
    "Branch.set_last_revision_ex", "Branch.set_last_revision_info",
    "Branch.set_parent_location", "Branch.set_tags_bytes", "Branch.unlock",
    "BzrDir.checkout_metadir", "BzrDir.cloning_metadir",
    "BzrDir.create_branch", "BzrDir.create_repository",
    "BzrDir.destroy_branch", "BzrDir.destroy_repository",
    "BzrDir.find_repository", "BzrDir.find_repositoryV2",
    "BzrDir.find_repositoryV3", "BzrDir.get_branches",
    "BzrDir.get_config_file", "BzrDir.has_workingtree", "BzrDir.open",
    "BzrDir.open_2.1", "BzrDir.open_branch", "BzrDir.open_branchV2",
    "BzrDir.open_branchV3", "BzrDirFormat.initialize",
    "BzrDirFormat.initialize_ex_1.16", "PackRepository.autopack",
    "Repository.abort_write_group", "Repository.add_signature_text",
    "Repository.all_revision_ids", "Repository.annotate_file_revision",
    "Repository.break_lock", "Repository.check_write_group",
    "Repository.commit_write_group", "Repository.gather_stats",
    "Repository.get_parent_map", "Repository.get_physical_lock_status",
    "Repository.get_rev_id_for_revno", "Repository.get_revision_graph",
    "Repository.get_revision_signature_text", "Repository.get_stream",
    "Repository.get_stream_1.19", "Repository.get_stream_for_missing_keys",
    "Repository.has_revision", "Repository.has_signature_for_revision_id",
    "Repository.insert_stream", "Repository.insert_stream_1.19",
    "Repository.insert_stream_locked", "Repository.is_shared",
    "Repository.iter_files_bytes", "Repository.iter_revisions",
    "Repository.lock_write", "Repository.make_working_trees",
    "Repository.pack", "Repository.reconcile", "Repository.revision_archive",
    "Repository.set_make_working_trees", "Repository.start_write_group",
    "Repository.tarball", "Repository.unlock",
    "VersionedFileRepository.get_inventories",
    "VersionedFileRepository.get_serializer_format", "get_bundle"]
PATH_PARAMS = ("path", "relpath", "rel_from", "rel_to", "stacked_on",
               "stack_on_pwd")


# ---------------------------------------------------------------- layout

def _tree_digest(root):
    h = hashlib.sha1()
    for d, dirs, files in os.walk(root):
        dirs.sort()
        h.update(os.path.relpath(d, root).encode() + b"/\0")
        for f in sorted(files):
            p = os.path.join(d, f)
            h.update(f.encode() + b"\0")
            if os.path.islink(p):
                h.update(b"L" + os.readlink(p).encode())
            else:
                with open(p, "rb") as fh:
                    h.update(fh.read())
            h.update(b"\0")
    return h.hexdigest()


def _build_layout(base):
    """base/outer/{served/..., secret.txt, sibling/, served-evil/, elsewhere/}
    and base/template (pristine copy of served)."""
    from breezy import controldir
    from breezy.bzr.branch import BranchReferenceFormat
    from breezy.branchbuilder import BranchBuilder
    fmt = controldir.format_registry.make_controldir("2a")
    outer = os.path.join(base, "outer")
    served = os.path.join(outer, "served")
    os.makedirs(os.path.join(served, "sub"))
    os.makedirs(os.path.join(served, "home", "me"))
    os.makedirs(os.path.join(outer, "elsewhere"))
    os.makedirs(os.path.join(outer, "served-evil"))
    for p, data in ((os.path.join(outer, "secret.txt"), SECRET),
                    (os.path.join(outer, "elsewhere", "secret.txt"), SECRET),
                    (os.path.join(outer, "served-evil", "secret.txt"), SECRET),
                    (os.path.join(served, "pub.txt"), b"public\n"),
                    (os.path.join(served, "home", "me", "note"), b"home\n"),
                    (os.path.join(served, "sub", "f"), b"sub file\n")):
        with open(p, "wb") as f:
            f.write(data)
    sib = controldir.ControlDir.create_branch_convenience(
        os.path.join(outer, "sibling"), format=fmt)
    bb = BranchBuilder(branch=sib)
    bb.build_snapshot(None, [
        ("add", ("", b"sib-root", "directory", None)),
        ("add", ("f", b"sib-f", "file", SIB_TEXT))], revision_id=SIB_REV)
    br = controldir.ControlDir.create_branch_convenience(
        os.path.join(served, "br"), format=fmt)
    bb = BranchBuilder(branch=br)
    bb.build_snapshot(None, [
        ("add", ("", b"br-root", "directory", None)),
        ("add", ("f", b"br-f", "file", b"inside\n"))], revision_id=b"rev-1")
    sib_url = sib.user_url
    stk = controldir.ControlDir.create_branch_convenience(
        os.path.join(served, "stk"), format=fmt)
    stk.set_stacked_on_url(sib_url)
    controldir.ControlDir.create_branch_convenience(
        os.path.join(outer, "served-evil", "br"), format=fmt)
    os.makedirs(os.path.join(served, "ref"))
    cd = fmt.initialize(os.path.join(served, "ref"))
    BranchReferenceFormat().initialize(cd, target_branch=sib)
    shutil.copytree(served, os.path.join(base, "template"), symlinks=True)
    return outer


class _Layout:
    def __init__(self, base):
        self.base = base
        self.outer = _build_layout(base)
        self.served = os.path.join(self.outer, "served")
        self.template = os.path.join(base, "template")
        self.canary = self._canaries()
        self.host = self._host()

    def _canaries(self):
        return {n: _tree_digest(os.path.join(self.outer, n))
                for n in ("sibling", "elsewhere", "served-evil")} | {
                    "secret.txt": open(os.path.join(self.outer, "secret.txt"),
                                       "rb").read(),
                    "outer-listing": sorted(os.listdir(self.outer))}

    def _host(self):
        return {"/": sorted(os.listdir("/")),
                "base": sorted(os.listdir(self.base))}

    def restore(self):
        shutil.rmtree(self.served)
        shutil.copytree(self.template, self.served, symlinks=True)


def _layout(env):
    lay = env.shared.get("c31-layout")
    if lay is None:
        from vf import env as venv
        base = os.path.join(venv.scratch_root(), "c31-layout")
        shutil.rmtree(base, ignore_errors=True)
        os.makedirs(base)
        lay = env.shared["c31-layout"] = _Layout(base)
        _install_observer()
    return lay


def setup(env):
    _layout(env)


def teardown(env):
    lay = env.shared.pop("c31-layout", None)
    if lay is not None:
        shutil.rmtree(lay.base, ignore_errors=True)


# ---------------------------------------------------------------- observer

OPENED = []
_ACTIVE = [False]


def _observer(transport):
    if _ACTIVE[0]:
        OPENED.append(transport.base)


def _install_observer():
    from breezy.bzr import bzrdir
    from breezy.bzr.smart import request  # noqa: F401 - its jail hook first
    if getattr(_install_observer, "done", False):
        return
    bzrdir.BzrDir.hooks.install_named_hook("pre_open", _observer,
                                           "vf C31 observer")
    _install_observer.done = True


def _outside_opens(state):
    from dromedary import urlutils
    bad = []
    for base in OPENED:
        if not base.startswith("file:"):
            continue        # chroot-/filter-/vfjail URLs end in the jail transport
        real = os.path.realpath(urlutils.local_path_from_url(base))
        if not state.inside(real):
            bad.append(base)
    return bad


# ---------------------------------------------------------------- textual model

def _unquote_all(s):
    from urllib.parse import unquote
    for _ in range(6):
        t = unquote(s, errors="surrogateescape")
        if t == s:
            break
        s = t
    return s


def textual_class(path, root, exp, lay):
    """-> (class of the path, leaves served when read textually)."""
    low = path.lower()
    kinds = []
    if ".." in path:
        kinds.append("dotdot")
    if any(x in low for x in ("%2f", "%5c", "%2e", "%25", "\\")):
        kinds.append("encoded")
    if "~" in path:
        kinds.append("tilde")
    s = _unquote_all(path).replace("\\", "/")
    if root:
        r = root.rstrip("/")
        if r and (s == r or s.startswith(r + "/")):
            s = s[len(r):]
    comps = [c for c in s.split("/") if c not in ("", ".")]
    outside = False
    if comps and comps[0].startswith("~") and exp is not None:
        target = _expand(exp, lay)(comps[0])
        if target != comps[0]:
            real = os.path.normpath(target)
            if not (real == lay.served or real.startswith(lay.served + "/")):
                outside = True
            comps = comps[1:]
    depth = 0
    for c in comps:
        if c == "..":
            depth -= 1
            if depth < 0:
                outside = True
        else:
            depth += 1
    return "+".join(kinds) or "plain", outside


def _expand(exp, lay):
    targets = {"inside": os.path.join(lay.served, "home", "me"),
               "outside": os.path.join(lay.outer, "elsewhere"),
               "prefix": os.path.join(lay.outer, "served-evil"),
               "system": "/root",
               "parent": lay.outer}

    def expander(path):
        head, sep, rest = path.partition("/")
        where = exp.get(head) if head.startswith("~") else None
        if where is None:
            return path
        return targets[where] + sep + rest
    return expander


# ---------------------------------------------------------------- dispatch

FILL = {"mode": b"0644", "dir_mode": b"0755", "create_parent": b"T",
        "shared": b"False", "use_existing_dir": b"True",
        "create_prefix": b"True", "force_new_repo": b"False",
        "make_working_trees": b"False", "shared_repo": b"False",
        "revision_id": b"rev-1"}


def _format_names():
    from breezy import controldir
    fmt = controldir.format_registry.make_controldir("2a")
    return {"network_name": fmt.get_branch_format().network_name(),
            "bzrdir_network_name": fmt.network_name(),
            "repo_format_name": fmt.repository_format.network_name()}


def build_args(case):
    """Arguments of the verb shaped after its do() signature."""
    from breezy.bzr.smart import request
    verb = s2b(case["verb"])
    try:
        cmd = request.request_handlers.get(verb)
    except KeyError:
        return None, None
    paths = [p.encode("utf-8", "surrogateescape") for p in case["paths"]]
    names = _format_names()
    if case["verb"] == "BzrDir.create_repository":
        names = dict(names, network_name=names["repo_format_name"])
    args = []
    pi = 0
    takes_body = (cmd.do_body is not request.SmartServerRequest.do_body or
                  cmd.do_chunk is not request.SmartServerRequest.do_chunk)
    for name, p in list(inspect.signature(cmd.do).parameters.items()):
        if name == "self":
            continue
        if p.kind == inspect.Parameter.VAR_POSITIONAL:
            args.extend(s2b(x) for x in case["extra"])
        elif name in PATH_PARAMS:
            args.append(paths[pi % len(paths)])
            pi += 1
        elif name in names:
            args.append(names[name])
        else:
            args.append(FILL.get(name, b""))
    return tuple(args), takes_body


def dispatch(case, backing, root):
    """One request through the real v3 server stack -> parsed response."""
    from breezy.bzr.smart import protocol
    args, takes_body = build_args(case)
    if args is None:
        return None
    mr = W.CollectRequest()
    r = protocol.ProtocolThreeRequester(mr)
    r.set_headers({b"Software version": b"vf"})
    verb = s2b(case["verb"])
    if takes_body:
        r.call_with_body_bytes((verb,) + args, s2b(case["body"]))
    else:
        r.call(verb, *args)
    enc = b"".join(mr.buf)
    out = []
    dec = protocol.build_server_protocol_three(backing, out.append, root)
    dec.accept_bytes(enc[len(W.V3_MARKER):])
    raw = b"".join(out)
    return raw


def make_backing(case, lay, jail):
    """-> (backing transport, cleanup callables)."""
    import dromedary
    from dromedary import chroot
    if case["config"] == "chroot":
        cs = chroot.ChrootServer(jail)
        cs.start_server()
        return dromedary.get_transport_from_url(cs.get_url()), [cs.stop_server]
    from breezy.bzr.smart import server
    base_path = server._local_path_for_transport(
        dromedary.get_transport_from_path(lay.served))
    if case["exp"].get("nobase"):
        # what the factory sees for a transport without a local path: no
        # userdir filter, the chroot alone confines
        base_path = None
    f = server.BzrServerFactory(userdir_expander=_expand(case["exp"], lay),
                                get_base_path=lambda t: base_path)
    f._make_backing_transport(jail)
    return f.transport, list(reversed(f.cleanups))


def run(case, env):
    lay = _layout(env)
    state = J.JailState(lay.served, lay.base)
    J.set_state(state)
    del OPENED[:]
    root = case["root"]
    cleanups = []
    raw = None
    try:
        jail = J.open_jail(lay.served)
        backing, cleanups = make_backing(case, lay, jail)
        _ACTIVE[0] = True
        try:
            if case["verb"] == "translate":
                raw = _translate_probe(case, backing, root)
            elif case["verb"] == "jail-open":
                raw = _jail_open_probe(case, backing, root, lay)
            else:
                raw = dispatch(case, backing, root)
        finally:
            _ACTIVE[0] = False
    finally:
        for c in cleanups:
            c()
        J.set_state(None)
        dirty = any(op not in READ_OPS for op, _, _ in state.log)
        canary_now = lay._canaries()
        host_now = lay._host()
        if dirty:
            lay.restore()
    path0 = case["paths"][0]
    detail = {"case": case, "escapes": state.escapes[:6]}
    family = ("vfs" if case["verb"] in VFS_VERBS else
              case["verb"] if case["verb"] in ("translate", "jail-open")
              else "objects")
    # (1) no operation outside the served directory (refused by the interlock)
    # (the signature names the mechanism classes that are known, so that one
    # open finding does not hide another: TAB / CR / LF in the decoded path,
    # and the 'no root translation' configuration)
    ctrl = any(c in _unquote_all(p) for p in case["paths"] for c in "\t\r\n")
    check(not state.escapes,
          "C31/%s-verb-operates-outside-served-directory%s%s" % (
              "vfs" if (family == "translate" and (ctrl or root is None))
              else family,
              "-via-tab-cr-lf-in-path" if ctrl else "",
              "" if root is not None else "-without-root-translation"),
          detail)
    # (2) canaries and the host are untouched
    check(canary_now == lay.canary, "C31/files-outside-served-directory-changed",
          {"case": case, "changed": sorted(
              k for k in lay.canary if lay.canary[k] != canary_now[k])})
    if host_now != lay.host:
        # (other jobs on the machine may create entries in / too: only names
        # this case could have produced count)
        mine = set(COMPS) | {c for p in case["paths"] for c in p.split("/")}
        new = [n for k in host_now for n in host_now[k]
               if n not in lay.host[k] and (k == "base" or n in mine)]
        if new:
            raise RuntimeError("HOST TOUCHED outside the scratch layout: new "
                               "entries %r" % (new,))
        lay.host = host_now
    # (3) no control directory outside the jail was opened
    bad = _outside_opens(state)
    check(not bad, "C31/control-directory-outside-jail-opened",
          {"case": case, "opened": bad[:5]})
    if raw is None:
        return trivial()
    if state.ops > state.max_ops:
        return rejected("runaway request starved by the harness (> %d file "
                        "operations)" % state.max_ops)
    # (4) nothing from outside in the answer
    sent = " ".join(case["paths"] + case["extra"] + [case["body"]]).encode(
        "utf-8", "surrogateescape")
    for token in (SECRET, SIB_REV, SIB_TEXT.strip()):
        if token in sent:
            continue        # the server may echo what the client itself sent
        check(token not in raw, "C31/answer-contains-content-from-outside",
              {"case": case, "token": b2s(token), "answer": b2s(raw[:300])})
    if case["verb"] in ("translate", "jail-open"):
        answer_ok, reason = raw.startswith(b"ok"), b2s(raw[:40])
    else:
        try:
            resp = W.parse_v3_response(raw)
        except W.WireError:
            # the server failed while serialising its answer (seen: an error
            # tuple containing None, e.g. TokenMismatch for an unlocked
            # branch): the client gets nothing - a refusal for this property
            return rejected("no well-formed response (%d bytes)" % len(raw),
                            label=None)
        answer_ok = resp["ok"]
        a = resp["args"]
        reason = b2s(a[0])[:40] if a and isinstance(a[0], bytes) else "?"
        if reason == "error" and len(a) > 1 and isinstance(a[1], bytes):
            reason = "error:" + b2s(a[1])[:50]
    klass, outside = textual_class(
        path0, None if family == "jail-open" else root, case.get("exp"), lay)
    label = None
    if outside and klass != "plain":
        label = "%s/%s/%s/%s" % (family, klass, case["config"],
                                 "answered" if answer_ok else "refused")
    if answer_ok:
        return ok(label) if label else trivial()
    return rejected(reason, label=label)


def _jail_open_probe(case, backing, root, lay):
    """Plays a request implementation that opens a control directory by URL
    while the jail is set up the way the request handler sets it up
    (SmartServerRequest.setup_jail): outside the jail root that must fail with
    JailBreak.  Opening by URL goes around the enforcing transport, so only
    read-only openers are used and targets beyond the scratch layout are
    skipped."""
    import dromedary
    from breezy import branch, controldir, errors
    from breezy.bzr.smart import request
    from dromedary import errors as te
    from dromedary import urlutils
    jail_root = None
    if case.get("jailroot") == "local":
        jail_root = dromedary.get_transport_from_path(lay.served)
    cmd = request.SmartServerRequest(backing, root, jail_root)
    url = urlutils.local_path_to_url(lay.served) + "/" + \
        case["paths"][0].lstrip("/")
    try:
        real = os.path.realpath(urlutils.local_path_from_url(url))
    except (urlutils.InvalidURL, ValueError, UnicodeError):
        return b"refused unusable url"
    if not (real == lay.base or real.startswith(lay.base + "/")):
        return b"refused target beyond the scratch layout (not attempted)"
    results = []
    cmd.setup_jail()
    try:
        for opener in (controldir.ControlDir.open, branch.Branch.open):
            try:
                opener(url)
                results.append("opened")
            except (errors.JailBreak, errors.NotBranchError, urlutils.InvalidURL,
                    te.PathError, te.TransportError, UnicodeError,
                    ValueError, OSError) as e:
                # (OSError: e.g. ENAMETOOLONG for a 300-character component)
                results.append(type(e).__name__)
    finally:
        cmd.teardown_jail()
    return (b"ok " if "opened" in results else b"refused ") + \
        " ".join(results).encode()


def _translate_probe(case, backing, root):
    """translate_client_path / transport_from_client_path called directly, the
    result used on the backing transport as the verbs do."""
    from breezy.bzr.smart import request, vfs
    from dromedary import errors as te
    from dromedary import urlutils
    path = case["paths"][0].encode("utf-8", "surrogateescape")
    out = []
    for cls in (request.SmartServerRequest, vfs.VfsRequest):
        cmd = cls(backing, root)
        try:
            rel = cmd.translate_client_path(path)
        except (te.PathNotChild, urlutils.InvalidURL, urlutils.InvalidURLJoin,
                UnicodeDecodeError, ValueError) as e:
            out.append("refused:" + type(e).__name__)
            continue
        try:
            backing.has(rel)
            t = backing.clone(rel)
            t.has(".")
            out.append("ok")
        except (te.TransportError, te.PathError, urlutils.InvalidURL, urlutils.InvalidURLJoin,
                ValueError) as e:
            out.append("transport:" + type(e).__name__)
    return (b"ok " if "ok" in out else b"refused ") + " ".join(out).encode()


# ---------------------------------------------------------------- interlock

EVIL = ["../secret.txt", "..%2Fsecret.txt", "sub/../../secret.txt",
        "%2e%2e/secret.txt", "/../secret.txt", "..%2fsibling",
        "sub/..%2F..%2Felsewhere/secret.txt", "../served-evil/secret.txt"]
GOOD = ["pub.txt", "sub/f", "sub/../pub.txt", "."]


def enum_interlock(tier):
    for name in J.guarded_names():
        yield {"op": name}
    yield {"op": "@chroot"}
    yield {"op": "@open"}


def _call_op(t, name, rel):
    import io
    extra = {"put_bytes": (b"x",), "append_bytes": (b"x",),
             "put_bytes_non_atomic": (b"x",), "readv": ([(0, 1)],),
             "_readv": ([(0, 1)],), "copy_tree": ("sub2",),
             "rename": ("x",), "move": ("x",), "copy": ("x",),
             "symlink": ("x",), "hardlink": ("x",)}
    if name in ("put_file", "append_file", "put_file_non_atomic"):
        return getattr(t, name)(rel, io.BytesIO(b"x"))
    if name in ("copy_to", "copy_tree_to_transport"):
        other = t.clone("sub")
        if name == "copy_to":
            return t.copy_to([rel], other)
        return t.clone(rel).copy_tree_to_transport(other)
    if name == "has_any":
        return t.has_any([rel])
    if name == "iter_files_recursive":
        return list(t.clone(rel).iter_files_recursive())
    r = getattr(t, name)(rel, *extra.get(name, ()))
    if name in ("readv", "_readv"):
        r = list(r)
    return r


def run_interlock(case, env):
    """Self-test of the enforcing transport: a failure here is a harness error,
    never a finding."""
    import dromedary
    from dromedary import chroot
    from dromedary import errors as te
    lay = _layout(env)
    state = J.JailState(lay.served, lay.base)
    J.set_state(state)
    problems = []
    try:
        t = J.open_jail(lay.served)
        op = case["op"]
        if op == "@open":
            for target in (lay.outer, os.path.join(lay.outer, "sibling"), "/"):
                n = len(state.escapes)
                try:
                    J.JailTransport(J.PREFIX + "file://" + target + "/")
                    problems.append("opened " + target)
                except te.PermissionDenied:
                    if len(state.escapes) == n:
                        problems.append("open not recorded " + target)
        elif op == "@chroot":
            cs = chroot.ChrootServer(t)
            cs.start_server()
            try:
                b = dromedary.get_transport_from_url(cs.get_url())
                for rel in ("..%2Fsecret.txt", "sub/..%2F..%2Fsecret.txt",
                            "..%2Fnewdir"):
                    for name in ("get_bytes", "has", "mkdir", "stat"):
                        n = len(state.escapes)
                        try:
                            getattr(b, name)(rel)
                            problems.append("chroot %s %s executed" % (name, rel))
                        except te.PermissionDenied:
                            if len(state.escapes) == n:
                                problems.append("chroot %s %s not recorded" % (
                                    name, rel))
            finally:
                cs.stop_server()
        else:
            for rel in EVIL:
                n = len(state.escapes)
                try:
                    _call_op(t, op, rel)
                    problems.append("%s(%r) executed" % (op, rel))
                except te.PermissionDenied:
                    if len(state.escapes) == n:
                        problems.append("%s(%r) not recorded" % (op, rel))
            if op in ("rename", "move", "copy"):
                for rel in EVIL:
                    n = len(state.escapes)
                    try:
                        getattr(t, op)("pub.txt", rel)
                        problems.append("%s(pub.txt, %r) executed" % (op, rel))
                    except te.PermissionDenied:
                        if len(state.escapes) == n:
                            problems.append("%s(->%r) not recorded" % (op, rel))
            if op in ("get_bytes", "has", "stat"):
                for rel in GOOD:
                    try:
                        _call_op(t, op, rel)
                    except te.PermissionDenied:
                        problems.append("%s(%r) refused" % (op, rel))
                    except (te.PathError, te.TransportError):
                        pass    # e.g. reading a directory
    finally:
        J.set_state(None)
        now = lay._canaries()
        host = lay._host()
        lay.restore()
    if now != lay.canary or host != lay.host:
        problems.append("canaries/host changed")
    if problems:
        raise RuntimeError("C31 interlock self-test failed: %r" % (problems,))
    return trivial()


# ---------------------------------------------------------------- strategies

PLAIN = [".", "..", "..", "a", "sub", "served", "secret.txt", "sibling", "br",
         "stk", "ref", ".bzr", "pub.txt", "home", "me", "elsewhere",
         "served-evil", "", "\u00e9"]
ENC_DOT = ["%2e%2e", "%2E%2E", "%2e.", ".%2E", "%252e%252e", "%252E.",
           "%25252e%25252e"]
ENC_SEP = ["%2F", "..%2F", "%2f..", "..%2f..", "%5C", "..%5c", "..%5C..",
           "..%2Fsecret.txt", "..%2Fsibling", "sub%2F..%2F..%2Fsecret.txt",
           "..%2F..%2Fsecret.txt", "%2E%2E%2Fsecret.txt", "..%2F.bzr",
           # encoded separators without any literal '..'
           "%2e%2e%2Fsecret.txt", "%2e%2e%2F%2e%2e%2Fsecret.txt",
           "%2e%2e%5Csecret.txt", "sub%2F%2e%2e%2F%2e%2e%2Fsibling",
           "%2e%2e%2Fsibling%2F.bzr%2Fbranch-format", "%2e%2e%2fserved-evil"]
DOUBLE = ["%252F", "..%252F", "..%252f..", "%25252F", "..%25252F", "%255C",
          "..%255c..", "..%252Fsecret.txt", "..%252F..%252Fsecret.txt",
          "sub%252F..%252F..%252Fsibling", "%252e%252e%252Fsecret.txt",
          "..%25252Fsecret.txt", "%252e%252e%252Fsecret.txt",
          "%252e%252e%252F%252e%252e%252Fsibling", "%252e%252e%255Csecret.txt"]
TILDE = ["~", "~user", "~evil", "~/..", "~user%2F.."]
ODD = ["\x00", "%00", "\\", "..\\", "..\\..", "%", "%zz", " ", "a" * 300,
       "%c0%ae%c0%ae", "%u002e%u002e", "..;", "...", ".. ", "\n", "\t",
       "\r\n", "%0A"]
GROUPS = [PLAIN] * 9 + [ENC_DOT] * 2 + [ENC_SEP] + [DOUBLE] * 3 + \
    [TILDE] * 2 + [ODD]
COMPS = PLAIN + ENC_DOT + ENC_SEP + DOUBLE + TILDE + ODD
INSIDE = ["", "pub.txt", "sub", "sub/f", "br", "stk", "ref", "br/.bzr",
          "home/me/note", "~/note", "~user/note", "sub/../br", "br/../stk",
          "./ref", "sub/../sub/f", "stk/", "ref/"]
OUTSIDE = ["secret.txt", "sibling", "sibling/.bzr/branch-format",
           "elsewhere/secret.txt", "served-evil/secret.txt"]
ROOTS = ["/", "/extra/", "/a/b/", None]
EXTRA = ["", "rev-1", "True", "False", "null:", "token", "0", "1", "f",
         "vf-canary-sibling-rev-51c2"]


@st.composite
def gen_path(draw, root):
    r = root or "/"
    if draw(st.sampled_from([True, False, False, False])):
        return r + draw(st.sampled_from(INSIDE))
    n = draw(st.integers(0, 5))
    comps = [draw(st.sampled_from(draw(st.sampled_from(GROUPS))))
             for _ in range(n)]
    if draw(st.sampled_from([True, False, False])):
        comps.append(draw(st.sampled_from(OUTSIDE)))
    p = "/".join(comps)
    style = draw(st.sampled_from(
        ["root"] * 6 + ["abs", "bare", "root-noslash", "root-enc",
                        "root-twice", "root-dotdot", "root-encdot",
                        "root-ctrl", "root-collision"]))
    if style == "root-collision":
        # a different directory whose name merely starts like the root
        return r.rstrip("/") + draw(st.sampled_from(["x/", "-evil/", "2/"])) + p
    if style == "root-ctrl":
        return r + draw(st.sampled_from(
            ["\n", "%0A", "\t", "%09", "%0d", "sub/\n"])) + "//" + p
    if style == "root":
        p = r + p
    elif style == "abs":
        p = "/" + p
    elif style == "root-noslash":
        p = r.lstrip("/") + p
    elif style == "root-enc":
        p = r.rstrip("/") + "%2F" + p
    elif style == "root-twice":
        p = r + r.lstrip("/") + p
    elif style == "root-dotdot":
        p = r + "../" + p
    elif style == "root-encdot":
        p = r + "%2e%2e/" + p
    return p


@st.composite
def gen_case(draw, tier):
    root = draw(st.sampled_from(ROOTS))
    family = draw(st.sampled_from(["vfs"] * 12 + ["objects"] * 8 +
                                  ["translate"] * 2 + ["jail-open"]))
    if family == "vfs":
        verb = draw(st.sampled_from(VFS_VERBS))
    elif family == "objects":
        verb = draw(st.sampled_from(OTHER_VERBS))
    else:
        verb = family
    config = draw(st.sampled_from(["chroot", "chroot", "factory"]))
    case = {"verb": verb, "root": root, "config": config,
            "paths": [draw(gen_path(root)) for _ in range(
                draw(st.integers(1, 3)))],
            "extra": draw(st.lists(st.sampled_from(EXTRA), max_size=3)),
            "body": draw(st.sampled_from(
                ["", "data", "0,1", "rev-1\n", "[]", "le", "l5:rev-1e"]))}
    if verb == "jail-open":
        case["jailroot"] = draw(st.sampled_from(["chroot", "local", "local"]))
        if draw(st.booleans()):
            case["paths"][0] = draw(st.sampled_from(
                ["../sibling", "../served-evil/br", "..%2Fsibling", "br", "stk",
                 "ref", "br/../../sibling", "../served-evil/../sibling",
                 "%2e%2e/sibling", "../served/br", "br/../../served-evil/br"]))
    if config == "factory":
        where = st.sampled_from(["inside", "outside", "prefix", "system",
                                 "parent"])
        case["exp"] = {"~": draw(where), "~user": draw(where)}
        if draw(st.sampled_from([False, False, True])):
            case["exp"]["nobase"] = True
    return case


FUZZ_RUNS = 20000


def enum_fuzz(tier):
    if tier != "thorough":
        return
    for i in range(4):
        yield {"campaign": i}


def run_fuzz(case, env):
    """atheris campaign over path bytes in a child process (libFuzzer owns its
    process); same run(), same enforcing transport."""
    import json
    import subprocess
    import sys
    root = os.path.dirname(os.path.dirname(os.path.dirname(
        os.path.abspath(__file__))))
    if not os.path.isdir(os.path.join(root, ".deps", "atheris")):
        return rejected("atheris unavailable (campaign skipped)")
    d = env.newdir("fuzz")
    r = subprocess.run(
        [sys.executable, "-m", "vf.lib.c31_fuzz", d,
         str(env.seed * 100 + case["campaign"]), str(FUZZ_RUNS)],
        cwd=root, stdout=subprocess.PIPE, stderr=subprocess.STDOUT, text=True,
        timeout=285)
    res = os.path.join(d, "result.json")
    if not os.path.exists(res):
        raise RuntimeError("fuzz child gave no result (rc=%s): %s" % (
            r.returncode, (r.stdout or "")[-1500:]))
    with open(res) as f:
        data = json.load(f)
    if data.get("skipped"):
        return rejected("atheris unavailable (campaign skipped)")
    if data.get("violation"):
        return violation(data["violation"]["signature"], data["violation"])
    if data.get("harness") or "runs" not in data:
        raise RuntimeError("fuzz child: %s" % (str(data)[-1500:],))
    return ok("atheris-campaign", n=max(1, data["runs"]),
              nt=data.get("nontrivial", 0))


def kinds(tier):
    if tier == "thorough":
        return _kinds(tier) + [Kind("atheris", run_fuzz, enumerate=enum_fuzz,
                                    hash_cases=False, max_shards=4)]
    return _kinds(tier)


def _kinds(tier):
    return [
        Kind("interlock", run_interlock, enumerate=enum_interlock,
             hash_cases=False, max_shards=1, setup=setup, teardown=teardown),
        Kind("paths", run, strategy=gen_case(tier),
             examples={"quick": 6000, "thorough": 200000},
             setup=setup, teardown=teardown),
    ]
