"""C05 - concurrent pack writers and packers never lose committed data."""

import os
import re
import shutil
import sys
import traceback
from unittest import mock

from hypothesis import strategies as st

from vf.api import Expect, Kind, check, ok, rejected, trivial, violation
from vf.lib import c05_sched as cs
from vf.lib import c04_crash as cc
from vf.seam import ft

PROPERTY = "C05"
LEVEL = "exploration"
TECHNIQUE = ("schedule exploration: 2-3 actors with their own repository "
             "objects hand over at every transport operation under a harness-"
             "owned schedule (virtual lock-poll clock); committed-data, reader, "
             "three-way-merge-law and check() oracles")
RULE = ("A case = format (2a / pack-0.92), a shared repository with 8-12 "
        "one-revision packs and three branches, 2-3 actor programs out of "
        "{commit x1-3 on its own branch, pack(), pack(clean_obsolete_packs), "
        "reader x1-2 rounds on one repository object, fetch of 1-3 outside "
        "revisions} and a schedule: the running actor keeps the baton except at "
        "generated switch points - 1-6 (thorough 1-40) of them placed at the "
        "n-th pack-names / lock / obsolete / rename operation of an actor, 0-3 "
        "at arbitrary global steps - and while polling a held lock. "
        "Non-trivial: a _save_pack_names that found pack-names changed since "
        "this actor loaded it (a real three-way merge), an autopack / pack "
        "restart, or a reader that had to reload; distinct by case hash.")
ASSUMPTIONS = [
    "actors are threads of one process that run strictly one at a time and "
    "hand over only at transport operations and lock-poll sleeps; lock-holder "
    "liveness checks (same pid) are therefore meaningless and not exercised",
    "observation wrappers around RepositoryPackCollection._save_pack_names / "
    "lock_names / _unlock_names / reload_pack_names only read state",
    "the merge law is evaluated from pack-names as read by the harness right "
    "after the names lock was taken and right before it is released",
]
LEVEL_TEXT = ("Actor programs and schedules are sampled; the harness owns the "
              "schedule, so every failure replays deterministically. Switch "
              "points are concentrated on the pack-names critical section.")
LEVEL_NOTE = ("Bounded number of pre-emptions per schedule; one process, so OS-"
              "level effects (open file handles on deleted packs, NFS rename "
              "semantics) are not modelled.")
REGISTERED = True
NONTRIVIAL_FLOOR = {"quick": 60, "thorough": 2000}

F29 = "C05/pack-fails-NoSuchFile-copying-signature-texts-outside-retry"
PACKER_INDEX = "C05/packer-reads-source-index-outside-retry"
COLLISION = ("C05/listed-pack-missing-after-identical-autopack-name-was-"
             "obsoleted-by-another-writer")
RETRY_WRITER = "C05/writer-surfaces-RetryWithNewPacks"
NAMES = ["A", "B", "C"]


def _known():
    from vf import runner
    return runner.load_findings()


class Obs:
    def makers(self, name):
        """Actors that allocated a pack of this (content-hash) name or wrote
        index files under it."""
        w = set(self.allocated.get(name, ()))
        if self.sch is not None:
            w |= self.sch.writers.get(name, set())
        return sorted(w)

    def made_twice(self, name):
        return len(self.makers(name)) >= 2

    def __init__(self, shared):
        self.sch = None
        self.shared = shared
        self.committed = []        # (actor, revision id)
        self.in_save = set()
        self.ctx = {}
        self.merges = 0
        self.saves = 0
        self.reloads = 0
        self.restarts = 0
        self.law = []
        self.checks = 0
        self.allocated = {}        # pack name -> actors that created it
        self.shadow = {}           # id(collection) -> disk nodes it last saw


def _read_nodes(coll, shared):
    from breezy import transport as _t
    t = _t.get_transport(shared + "/.bzr/repository")
    return {(key[0].decode("ascii"), value) for _i, key, value in
            coll._index_class(t, "pack-names", None).iter_all_entries()}


def _patches(obs):
    """Observation only: every wrapper calls the original unchanged."""
    from breezy.bzr.pack_repo import RepositoryPackCollection as RPC
    o_save, o_lock, o_unlock = (RPC._save_pack_names, RPC.lock_names,
                                RPC._unlock_names)
    o_reload, o_ra, o_rp = (RPC.reload_pack_names, RPC._restart_autopack,
                            RPC._restart_pack_operations)

    def save(self, *a, **k):
        actor = ft.current_actor()
        if actor is None:
            return o_save(self, *a, **k)
        obs.in_save.add(actor)
        obs.ctx[actor] = {}
        try:
            return o_save(self, *a, **k)
        finally:
            obs.in_save.discard(actor)
            obs.ctx.pop(actor, None)

    def lock_names(self):
        o_lock(self)
        ctx = obs.ctx.get(ft.current_actor())
        if ctx is not None and "disk" not in ctx:
            ctx["disk"] = _read_nodes(self, obs.shared)
            # what this object last saw on disk, as recorded by the harness at
            # that moment (not the object's own _packs_at_load bookkeeping)
            ctx["at_load"] = set(obs.shadow.get(id(self),
                                                self._packs_at_load))
            ctx["mine"] = {(n, b" ".join(b"%d" % s for s in sizes))
                           for n, sizes in self._names.items()}

    def unlock_names(self):
        actor = ft.current_actor()
        ctx = obs.ctx.get(actor)
        if ctx is not None and "disk" in ctx and "done" not in ctx and \
                sys.exc_info()[0] is None:
            ctx["done"] = True
            written = _read_nodes(self, obs.shared)
            deleted = ctx["at_load"] - ctx["mine"]
            added = ctx["mine"] - ctx["at_load"]
            expected = (ctx["disk"] - deleted) | added
            obs.saves += 1
            if ctx["disk"] != ctx["at_load"]:
                obs.merges += 1
            if written != expected:
                obs.law.append({
                    "actor": actor,
                    "disk_at_lock": sorted(n for n, _ in ctx["disk"]),
                    "loaded": sorted(n for n, _ in ctx["at_load"]),
                    "mine": sorted(n for n, _ in ctx["mine"]),
                    "written": sorted(n for n, _ in written),
                    "expected": sorted(n for n, _ in expected)})
            obs.shadow[id(self)] = written
        return o_unlock(self)

    o_ensure = RPC.ensure_loaded

    def ensure_loaded(self):
        first = o_ensure(self)
        if first and ft.current_actor() is not None:
            obs.shadow[id(self)] = _read_nodes(self, obs.shared)
        return first

    o_plan = RPC.plan_autopack_combinations

    class _ByName:
        """Stands in for a Pack while the autopack plan is sorted: packs with
        the same revision count compare by NAME instead of by object address
        (bzrformats' Pack.__lt__), so that a schedule replays.  Either order is
        one the subject can produce."""

        def __init__(self, pack):
            self.pack = pack

        def __lt__(self, other):
            return self.pack.name < other.pack.name

        def __gt__(self, other):
            return self.pack.name > other.pack.name

        def __eq__(self, other):
            return self.pack is other.pack

        def __hash__(self):
            return hash(self.pack.name)

    def plan(self, existing_packs, pack_distribution):
        ops = o_plan(self, [(c, _ByName(p)) for c, p in existing_packs],
                     pack_distribution)
        return [[n, [w.pack for w in ws]] for n, ws in ops]

    o_alloc = RPC.allocate

    def allocate(self, a_new_pack):
        a = ft.current_actor()
        if a is not None:
            obs.allocated.setdefault(a_new_pack.name, set()).add(a)
        return o_alloc(self, a_new_pack)

    def reload(self):
        loaded = self._names is not None      # not the first read
        r = o_reload(self)
        if ft.current_actor() is not None:
            obs.shadow[id(self)] = _read_nodes(self, obs.shared)
            if r and loaded:
                obs.reloads += 1
        return r

    def restart_a(self):
        obs.restarts += 1
        return o_ra(self)

    def restart_p(self):
        obs.restarts += 1
        return o_rp(self)

    return [mock.patch.object(RPC, "_save_pack_names", save),
            mock.patch.object(RPC, "lock_names", lock_names),
            mock.patch.object(RPC, "_unlock_names", unlock_names),
            mock.patch.object(RPC, "reload_pack_names", reload),
            mock.patch.object(RPC, "allocate", allocate),
            mock.patch.object(RPC, "plan_autopack_combinations", plan),
            mock.patch.object(RPC, "ensure_loaded", ensure_loaded),
            mock.patch.object(RPC, "_restart_autopack", restart_a),
            mock.patch.object(RPC, "_restart_pack_operations", restart_p)]


def _fresh_check(obs, where, full=False):
    """What a fresh reader on the plain transport sees right now."""
    from breezy import repository as _r
    repo = _r.Repository.open(obs.shared)
    obs.checks += 1
    base = obs.shared + "/.bzr/repository/"
    sfx = [".rix", ".iix", ".tix", ".six"] + (
        [".cix"] if repo._format.supports_chks else [])
    nodes = sorted(_read_nodes(repo._pack_collection, obs.shared))
    listed = [n for n, _v in nodes]
    gone = []
    for n, value in nodes:
        bad = [] if os.path.exists(base + "packs/%s.pack" % n) else ["pack"]
        for x, size in zip(sfx, value.split(b" ")):
            ip = base + "indices/" + n + x
            if not os.path.exists(ip):
                bad.append(x + " missing")
            elif os.path.getsize(ip) != int(size):
                bad.append("%s has %d bytes, listed %d" % (
                    x, os.path.getsize(ip), int(size)))
        if bad:
            gone.append([n, bad])
    if gone:
        twice = [n for n, _b in gone if obs.made_twice(n)]
        check(False, COLLISION if twice else "C05/listed-pack-missing",
              [where, {"listed": listed, "missing": gone,
                       "created_by": {n: obs.makers(n) for n, _b in gone}}])
    with repo.lock_read():
        ids = set(repo.all_revision_ids())
        want = [rid for _a, rid in obs.committed]
        lost = sorted(r for r in want if r not in ids)
        check(not lost, "C05/committed-revision-not-listed",
              [where, [r.decode() for r in lost]])
        for rid in (sorted(ids) if full else want):
            text = repo.revision_tree(rid).get_file_text("f")
            check(text == rid + b"\n", "C05/revision-text-wrong",
                  [where, rid.decode(), text.decode("latin-1")])
    cc.listing_ok(obs.shared, repo, "C05/")
    return repo, ids


def _op_done(obs, actor, what):
    if obs.in_save - {actor}:
        return      # another writer is inside its pack-names critical section
    _fresh_check(obs, "%s after %s" % (actor, what))


def _actor(obs, name, prog, shared, srcpath):
    from breezy import branch as _b, repository as _r
    from breezy.branchbuilder import BranchBuilder
    kind = prog["kind"]
    if kind == "commit":
        def fn():
            b = _b.Branch.open(ft.url(shared + "/" + prog["branch"]))
            if prog.get("hold"):
                # all commits as write groups of ONE write lock on one
                # long-lived repository object (what a fetch or a rebase does)
                with b.lock_write():
                    return commits(b)
            return commits(b)

        def commits(b):
            for j in range(prog["n"]):
                rid = ("%s-%d" % (name, j)).encode()
                bb = BranchBuilder(branch=b)
                bb.start_series()
                try:
                    bb.build_snapshot(
                        [b.last_revision()],
                        [("modify", ("f", rid + b"\n"))], revision_id=rid,
                        timestamp=cs.T0 + 1000 + j, timezone=0,
                        committer=cs.COMMITTER, message="m")
                finally:
                    bb.finish_series()
                obs.committed.append((name, rid))
                _op_done(obs, name, "commit %s" % rid.decode())
        return fn
    if kind == "pack":
        def fn():
            r = _r.Repository.open(ft.url(shared))
            with r.lock_write():
                r.pack(clean_obsolete_packs=prog["clean"])
            _op_done(obs, name, "pack")
        return fn
    if kind == "reader":
        def fn():
            r = _r.Repository.open(ft.url(shared))
            for _ in range(prog["rounds"]):
                with r.lock_read():
                    for rid in sorted(r.all_revision_ids()):
                        text = r.revision_tree(rid).get_file_text("f")
                        check(text == rid + b"\n", "C05/reader-wrong-text",
                              [name, rid.decode()])
        return fn
    if kind == "fetch":
        def fn():
            r = _r.Repository.open(ft.url(shared))
            src = _r.Repository.open(srcpath)
            r.fetch(src, cs.rev_x(prog["n"] - 1))
            for i in range(prog["n"]):
                obs.committed.append((name, cs.rev_x(i)))
            _op_done(obs, name, "fetch")
        return fn
    raise ValueError(kind)


_PACKFILE = re.compile(r"([0-9a-f]{32})\.(rix|iix|tix|six|cix|pack)")


def _twin_read(obs, e):
    """[pack name, makers] when the exception is a failed or short READ of a
    pack / index file whose content-hash name was produced by two different
    actors in this schedule (the root cause of COLLISION); else None."""
    if type(e).__name__ not in ("NoSuchFile", "ShortReadvError"):
        return None
    m = _PACKFILE.search(str(e))
    if m is None or not obs.made_twice(m.group(1)):
        return None
    return [m.group(1), obs.makers(m.group(1))]


def _tb_has(e, func):
    return any(fr.name == func for fr in traceback.extract_tb(e.__traceback__))


def _packer_step(e):
    """Name of the packer step below _create_pack_from_packs."""
    names = [fr.name for fr in traceback.extract_tb(e.__traceback__)]
    i = len(names) - 1 - names[::-1].index("_create_pack_from_packs")
    return names[i + 1] if i + 1 < len(names) else "?"


def run(case, env):
    tmpl = cs.template(env, case["format"], case["npacks"])
    d = env.newdir()
    shutil.copytree(tmpl, d + "/w")
    shared, srcpath = d + "/w/shared", d + "/w/src"
    obs = Obs(shared)
    sw_ops = {(NAMES[a], n): k for a, n, k in case["switch_ops"]
              if a < len(case["actors"])}
    sw_steps = {s: k for s, k in case["switch_steps"]}
    sch = cs.PolicyScheduler(sw_steps, sw_ops)
    obs.sch = sch
    actors = {NAMES[i]: _actor(obs, NAMES[i], p, shared, srcpath)
              for i, p in enumerate(case["actors"])}
    patches = _patches(obs) + [
        mock.patch("breezy.lockdir.time", ft.VirtualTime(sch))]
    for p in patches:
        p.start()
    try:
        with ft.session(mode="schedule", scheduler=sch):
            errors = sch.run(actors)
    finally:
        for p in reversed(patches):
            p.stop()
    kinds_ = "+".join(sorted(p["kind"] + ("-clean" if p.get("clean") else "")
                             for p in case["actors"]))
    if sch.exhausted:
        return rejected("inconclusive: step bound exceeded")
    noted = []
    refused = []
    broken = False
    for a in sorted(errors):
        e = errors[a]
        if e is None:
            continue
        if isinstance(e, Expect) and e.signature in _known():
            noted.append((e.signature, e.detail))
            broken = True
            continue
        if isinstance(e, Expect) or not isinstance(e, Exception):
            raise e
        prog = case["actors"][NAMES.index(a)]
        tname = type(e).__name__
        if tname == "BzrError" and _tb_has(e, "allocate") and \
                "already exists" in str(e):
            # a packer produced exactly the pack another packer just listed
            # (names are content hashes); the operation is refused, nothing is
            # lost - the final-state oracles below still apply
            refused.append("identical-pack-already-listed")
            continue
        twin = _twin_read(obs, e)
        if twin:
            # a read met the identical-name twin of a listed pack while the
            # second maker was (re)writing or the obsoleter was moving it
            sig = COLLISION
            if sig not in _known():
                raise Expect(sig, [a, prog, twin, str(e)[:200]])
            noted.append((sig, [a, prog, twin, str(e)[:200]]))
            broken = True
            continue
        if tname == "NoSuchFile" and _tb_has(e, "_create_pack_from_packs"):
            step = _packer_step(e)
            missing = str(getattr(e, "path", "") or e)
            on_index = missing.rstrip("'\"").endswith(
                (".rix", ".iix", ".tix", ".six", ".cix"))
            if on_index and step == "_copy_signature_texts":
                sig = F29
            elif on_index:
                # one root cause: the packers read their SOURCE INDICES
                # (keys(), sorted index nodes) outside the reload-and-retry
                # wrapper, which only covers pack data reads
                sig = PACKER_INDEX
            else:
                # a vanished .pack is what reload-and-retry exists for
                sig = "C05/packer-NoSuchFile-on-pack-escapes-retry:" + step
        elif "RetryWithNewPacks" in (tname + str(e)) and \
                prog["kind"] in ("commit", "fetch") and \
                not _tb_has(e, "autopack"):
            # while inserting into the write group, i.e. outside the
            # autopack retry loop (inside it a retry failure is not this class)
            sig = RETRY_WRITER
        else:
            from vf import runner
            what, sig, _d = runner.classify_exception(PROPERTY, e)
            if what != "violation":
                raise e
        if sig not in _known():
            raise e if not sig.startswith(("C05/pack", "C05/writer")) else Expect(
                sig, [a, prog, "".join(traceback.format_exception(
                    type(e), e, e.__traceback__))[-1500:]])
        step = _packer_step(e) if _tb_has(e, "_create_pack_from_packs") \
            else None
        noted.append((sig, [a, prog, step, str(e)[:300]]))
    check(not obs.law, "C05/pack-names-written-is-not-the-three-way-merge",
          obs.law[:2])
    if not broken:
        try:
            repo, _ids = _fresh_check(obs, "end", full=True)
        except Expect as e:
            if e.signature not in _known():
                raise
            noted.append((e.signature, e.detail))
            broken = True
    if not broken:
        cc.check_clean(repo.check(), "C05/", "end")
    cls = []
    if obs.merges:
        cls.append("merge")
    if obs.restarts:
        cls.append("restart")
    if obs.reloads:
        cls.append("reload")
    label = "%s/%s/%s" % (case["format"], kinds_, "+".join(cls) or "serial")
    if noted:
        return violation(noted[0][0], noted[0][1], label=label)
    if refused:
        return rejected(refused[0], label=label if cls else None)
    return ok(label) if cls else trivial()


# ------------------------------------------------------------------ generator

@st.composite
def schedule_case(draw, tier):
    fmt = draw(st.sampled_from(["2a", "2a", "pack-0.92"]))
    npacks = draw(st.integers(8, 12))
    nact = draw(st.sampled_from([2, 2, 3]))
    actors = [{"kind": "commit", "branch": "b1", "n": draw(st.integers(1, 3))}]
    if actors[0]["n"] > 1 and draw(st.integers(0, 1)):
        actors[0]["hold"] = True
    for i in range(1, nact):
        k = draw(st.sampled_from(["commit", "commit", "pack", "pack-clean",
                                  "reader", "fetch"]))
        if k == "commit":
            actors.append({"kind": "commit", "branch": "b%d" % (i + 1),
                           "n": draw(st.integers(1, 3))})
        elif k in ("pack", "pack-clean"):
            actors.append({"kind": "pack", "clean": k == "pack-clean"})
        elif k == "reader":
            actors.append({"kind": "reader", "rounds": draw(st.integers(1, 2))})
        else:
            actors.append({"kind": "fetch", "n": draw(st.integers(1, 3))})
    maxpre = 6 if tier == "quick" else 40
    # a commit without autopack performs ~20 pack-names / lock / rename
    # operations, with autopack ~80; the whole case ~300-900 steps
    first = [0, draw(st.integers(2, 22)), draw(st.integers(0, 1))]
    sw_ops = [first] + draw(st.lists(
        st.tuples(st.integers(0, nact - 1), st.integers(1, 85),
                  st.integers(0, 1)).map(list), max_size=maxpre - 1))
    sw_steps = draw(st.lists(
        st.tuples(st.integers(0, 600), st.integers(0, 1)).map(list),
        max_size=3))
    return {"format": fmt, "npacks": npacks, "actors": actors,
            "switch_ops": sw_ops, "switch_steps": sw_steps}


def kinds(tier):
    return [
        Kind("schedules", run, strategy=schedule_case(tier),
             examples={"quick": 400, "thorough": 20000}),
    ]
